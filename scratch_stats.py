import sys, time, collections
sys.path.insert(0,'.')
from mon.core import Acc, Server
from mon import wrun
from mon.world import err_text
class Stats:
    def __init__(self, world, acc): self.c=collections.Counter(); self.e=collections.Counter()
    def on_step(self, st):
        k=(st.op['kind'], st.res['r'])
        G[k]+=1
        if st.res['r']!='ok':
            E[(st.op['kind'], err_text(st.res)[:90])]+=1
G=collections.Counter(); E=collections.Counter()
acc=Acc(); srv=Server()
t=time.time(); n=0
for wi in range(int(sys.argv[1]) if len(sys.argv)>1 else 10):
    w=wrun.run_world(acc, srv, (1,'dbg','quick',0,wi), lambda w,a:[Stats(w,a)], None, 200)
    n+=w.nstep
dt=time.time()-t
print('steps',n,'per s',n/dt)
for k,v in sorted(G.items()): print(k,v)
for k,v in sorted(E.items(), key=lambda kv:-kv[1])[:60]: print(v,k)
