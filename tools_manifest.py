#!/usr/bin/env python3
"""Regenerates MANIFEST.json from the table below (dev helper; MANIFEST.json itself is committed)."""
import json

T = {
 "C01": ("fn: exact-integer oracle over constructive residue inputs to compute_swap; system: ledger product/ask-reserve monitor over every successful swap in seeded world histories", "4/C01"),
 "C02": ("ledger settlement-equation monitor over every swap attempt incl. the malformed cross product (asset delivered x named x amount x funds x entry)", "4/C02"),
 "C03": ("invariant monitor r0*r1*S'^2 >= ... after every step of seeded multi-actor histories (ledger snapshots)", "4/C03"),
 "C04": ("ledger monitor with exact pro-rata bounds and full-delta equality on every withdrawal, incl. hooks delivered by other tokens and withdrawals while a pool token is frozen", "4/C04"),
 "C05": ("ledger monitor (share bounds, pulls, reserved unit, whitelist/minimums) on every provision + exact reference for the share formula", "4/C05"),
 "C06": ("exact-rational reference oracle (band, commission identity, sum identity, monotonicity) over compute_swap calls, pair Simulation answers and swap attributes", "4/C06"),
 "C07": ("full-ledger conservation / declared-cells monitor after every step (all accounts x all assets, supplies, bystander allowances, storage digests)", "4/C07"),
 "C08": ("two-way exact-arithmetic oracle (Python ints) over every Uint256/Decimal256 operator; thorough adds the exhaustive limb grid and differential replays of the op stream and of recorded world request logs under valgrind memcheck and under an AddressSanitizer build (nightly)", "4/C08"),
 "C09": ("declared-vs-attached grid monitor at function level and through provide / swap / hook in worlds; failure => unchanged ledger", "4/C09"),
 "C10": ("guard-verdict oracle in exact rationals over assert_max_spread calls near the limit and over guarded swaps executed after interleaved foreign operations", "4/C10"),
 "C11": ("router trace monitor: recipient gain >= minimum_receive on success, bit-identical ledger and digests on failure, stale quotes both ways", "4/C11"),
 "C12": ("quote-vs-execution monitor (same-state Simulation vs attributes and ledger), closed-form bound oracle for reverse simulation, router sims vs Python fold of pair queries", "4/C12"),
 "C13": ("router pass-through monitor: recipient gain == same-state router quote, router ends at zero, only final asset delivered; bad route shapes must fail", "4/C13"),
 "C14": ("exhaustive walk of the (entry point x caller role x phase) access matrix in sampled world states; unauthorised cell => failure with unchanged ledger/digests", "4/C14"),
 "C15": ("guard-verdict oracle in exact rationals over assert_slippage_tolerance near the limit and provisions with tolerance after interleaved swaps", "4/C15"),
 "C16": ("reference-model monitor (dict keyed by frozenset of typed ids) after every CreatePair attempt, re-registration and administrative action (pair / factory / token migrations, code-id switches) in registry worlds with prefix/split denom families", "4/C16"),
 "C17": ("reference-model monitor after every decimals re-registration: all three views of every pair vs model, untouched pairs by storage digest, registries up to 40 pairs, 600-update histories, dead tokens, pairs out of order and repaired", "4/C17"),
 "C18": ("round-trip and denotation oracles over structured values, an exhaustive string space, random hostile numerals and format specifications; thorough adds differential replays under valgrind memcheck and an AddressSanitizer build", "4/C18"),
 "C19": ("exhaustive page-size x cursor-orientation walks per registry (0..40 pairs) checked for completeness, duplicates and caps, after factory / pair migrations and with one oversized record", "4/C19"),
 "C20": ("injection monitor: entitled withdrawals injected into hostile histories must succeed (one-step bounded progress); churn worlds paying out more than 2^128 in total", "4/C20"),
}
checks = []
for pid, (tech, ref) in sorted(T.items()):
    checks.append({
        "property_id": pid,
        "quick_cmd": "./check %s --tier quick" % pid,
        "thorough_cmd": "./check %s --tier thorough" % pid,
        "evidence_file": "/verif/evidence/%s.json" % pid,
        "replay_cmd_template": "./check %s --replay {path}" % pid,
        "engine": "halosrv+python-monitors",
        "level_claimed": {
            "category": "exploration",
            "text": "Runtime monitoring: the real crates are executed (halosrv adapter rebuilt from /repo's working tree) under seeded hostile workloads and an oracle written from the property statement judges every observed event. The claim is 'held on the K executions listed in the evidence (classes, outcome mix, interleavings)', never 'verified'; coverage floors and a canary (corrupted real events must be flagged) guard against a dead oracle. Right level here: no threads/unsafe/FFI in the repository, every property is behavioural and quantifies over inputs/histories, which this family reaches by workload diversity.",
            "design_ref": "DESIGN.md §" + ref
        },
        "level_note": "Trusted base: Python ints/Fractions as exact arithmetic; cw-multi-test 0.16.1 + cw20-base 1.0.0 as chain/token simulator (honest tokens, inputs a real chain cannot produce are not generated); the adapter halosrv (no property logic). Says nothing about inputs/histories outside the generated classes.",
        "technique": "runtime monitoring: " + tech,
    })
m = {
 "version": 1,
 "setup_cmd": "cd /verif/harness && CARGO_NET_OFFLINE=true cargo build --release --offline",
 "hooks": {
  "guard": "halotrade_verif",
  "enable": "none needed: every observation point is the public API (exported functions, execute messages, queries, cw-multi-test raw storage dump); the guard name is reserved but unused, /repo has no hook commits",
  "baseline_off_cmd": "cd /repo && cargo test --workspace --no-fail-fast --offline",
  "source_commits": [],
  "add_only": True
 },
 "engines": [
  {"name": "halosrv+python-monitors", "path": "/verif/harness (Rust adapter) + /verif/mon (generators, oracles, monitors)",
   "serves_properties": sorted(T), "kind_free_text": "runtime monitoring: thin Rust adapter executing the real crates (exported fns + cw-multi-test world) driven by seeded Python workload generators; oracles/monitors in exact Python arithmetic; valgrind memcheck leg for the bigint unsafe paths"}
 ],
 "checks": checks,
 "not_applicable": [],
 "notes": "exit 0 held / exit 1 VIOLATION line / exit 2 INCONCLUSIVE (never a VIOLATION line). VERIF_SEED seeds everything. Known finding C01-window (open, see known_findings.json) prints KNOWN-FINDING lines for C01 and C03. Fix commits in /repo: a125946 (C02), 4afeadb (C16), 327899f (C17)."
}
json.dump(m, open('/verif/MANIFEST.json', 'w'), indent=1)
print("written", len(checks))
