"""History generator: hostile, seeded sequences of operations by several actors on a World.

`HistGen.next()` returns (op, quotes). Weights are per-property profiles. Interleavings
(quote -> 0..3 foreign operations -> guarded execution) are produced through pending intents."""
import json
from math import isqrt

from .core import D, M128
from .world import ACTIVE, ACTORS, BAL, BYSTANDERS, ainfo, attr_events, b64, dec_str

HOLDERS = [a for a in ACTORS if a not in BYSTANDERS]   # bystanders hold balances and allowances but never act

DEFAULT_W = {
    "swap": 30, "swap_window": 4, "swap_malformed": 5, "provide": 12, "provide_first": 4, "withdraw": 10,
    "route": 12, "donate": 5, "lp_burn": 2, "lp_transfer": 2, "unauth": 3, "transfer": 1,
    "provide_malformed": 3, "add_decimals": 1, "route_bad": 2, "intent": 8, "owner_admin": 1, "withdraw_via_token": 1, "freeze_token": 0,
}


def rel_amount(rng, reserve, scale_bits, cap=BAL):
    r = rng.random()
    if reserve <= 0:
        reserve = 1 << scale_bits
    if r < 0.08:
        v = 1
    elif r < 0.16:
        v = rng.randrange(1, 12)
    elif r < 0.72:
        v = int(reserve * 2 ** rng.uniform(-14, 1.5))
    elif r < 0.86:
        v = int(reserve * 2 ** rng.uniform(1.5, 24))
    elif r < 0.93:
        v = reserve + rng.choice([-1, 0, 1])
    else:
        v = rng.getrandbits(rng.randrange(1, 119))
    return max(1, min(v, cap))


class HistGen:
    def __init__(self, world, rng, weights=None, recipients=None):
        self.w, self.rng = world, rng
        self.weights = dict(DEFAULT_W)
        if weights:
            self.weights.update(weights)
        self.kinds = [k for k, v in self.weights.items() if v > 0]
        self.wts = [self.weights[k] for k in self.kinds]
        self.pending = []
        self.count = 0
        self.recipients = recipients or (ACTORS + ["recv"])

    # -- helpers ---------------------------------------------------------------
    def actor(self):
        return self.rng.choice(ACTIVE)

    def pair(self, funded=None):
        ps = self.w.pairs
        if funded is not None:
            led = self.w.ledger
            ps = [p for p in ps if (p.supply(led) > 0) == funded] or self.w.pairs
        return self.rng.choice(ps)

    def maybe_to(self, actor, pair=None, offer=None):
        r = self.rng.random()
        if r < 0.58:
            return None
        if r < 0.68:
            return actor
        if r < 0.76 and pair is not None:
            # contracts as designated receivers: the token being sold, the token being bought, the pair, its LP token, the router
            cands = [a[1] for a in pair.assets if a[0] == "t"] + [pair.addr, pair.lp, self.w.router, self.w.factory]
            if offer is not None and offer[0] == "t":
                cands += [offer[1], offer[1]]
            return self.rng.choice(cands)
        if r < 0.79:
            # strings that are not valid addresses: the call must fail, never fall back to another receiver
            return self.rng.choice(["Recv", "RECV", "re", "", "r" * 64, "Trader1"])
        return self.rng.choice([a for a in self.recipients if a != actor])

    def sim_quote(self, pair, offer, amount):
        return [self.w.q_sim(pair, offer, amount), (pair.addr, {"pool": {}})]

    # -- op kinds ----------------------------------------------------------------
    def g_swap(self, window=False):
        w, rng = self.w, self.rng
        p = self.pair(funded=True)
        led = w.ledger
        i = rng.randrange(2)
        offer = p.assets[i]
        x, y = p.reserves(led)[i], p.reserves(led)[1 - i]
        actor = self.actor()
        bal = led.get(actor, offer[1])
        amount = None
        if window and y > 10 ** 18 and abs(x - y) <= 64 and rng.random() < 0.8:
            # deep and (nearly) balanced: offers of a few units into the larger side
            if x < y:
                i = 1 - i
                offer = p.assets[i]
                x, y = y, x
                bal = led.get(actor, offer[1])
            if bal >= 3:
                amount = rng.choice([1, 1, 2, 3])
        if amount is None and window and x > 0 and y > 1:
            # a = floor(x*y/k) - x lands x*y/(x+a) just above the integer k
            kmax = min(y - 1, isqrt(max(1, x * y // D)) + 2)
            for _ in range(4):
                k = rng.choice([1, 2, 3, rng.randrange(1, kmax + 1)])
                if k <= kmax or k == 1:
                    a = x * y // k - x + rng.choice([0, 0, 0, -1, 1])
                    if 0 < a <= bal:
                        amount = a
                        break
        if amount is None:
            amount = rel_amount(rng, x, w.scale_bits, cap=max(1, bal))
        if not window and rng.random() < 0.03:
            # an offer nobody can fund (up to 2^128-1): the swap fails, its same-state Simulation is still judged
            amount = rng.choice([M128, M128 - x, M128 - x + 1, M128 - rng.randrange(0, max(1, x)), (1 << 127) + rng.getrandbits(100)])
        belief = max_spread = None
        r = rng.random()
        if r < 0.25:
            max_spread = rng.choice([0, 10 ** 15, 10 ** 16, 5 * 10 ** 16, 5 * 10 ** 17, D, D + 1, rng.randrange(0, D),
                                     (1 << 64) + rng.randrange(0, D), M128])
        if 0.1 <= r < 0.2 and x > 0 and y > 0:
            # limit placed right at the spread this very swap will have (taken from a same-state simulation), within 1 %
            qr = w.q(*w.q_sim(p, offer, amount))
            if qr["r"] == "ok":
                ret_, sp_, cm_ = int(qr["v"]["return_amount"]), int(qr["v"]["spread_amount"]), int(qr["v"]["commission_amount"])
                if ret_ + sp_ > 0:
                    ratio = sp_ * D // (ret_ + sp_)
                    ratio2 = sp_ * D // (ret_ + cm_ + sp_)
                    lo, hi = min(ratio, ratio2), max(ratio, ratio2)
                    max_spread = max(0, rng.choice([ratio, ratio + 1, max(0, ratio - 1), rng.randrange(lo, hi + 1),
                                                    int(ratio * rng.uniform(0.99, 1.01))]))
        if r < 0.1 and y > 0 and x > 0:
            # belief price in human units around the pool price
            do, da = p.decimals[i], p.decimals[1 - i]
            price = (x * 10 ** max(da - do, 0) * D) // max(1, y * 10 ** max(do - da, 0))
            num, den = rng.choice([(1, 2), (9, 10), (1, 1), (1, 1), (11, 10), (2, 1)])     # (integers: prices can exceed any float)
            belief = max(1, price * num // den)
            if belief > M128:
                belief = None
        op = w.op_swap(actor, p, offer, amount, to=self.maybe_to(actor, p, offer), belief=belief, max_spread=max_spread)
        if window:
            op["sem"]["window_try"] = True
        return op, self.sim_quote(p, offer, amount)

    def g_swap_malformed(self):
        """A cell of the cross product (asset delivered) x (asset named) x (amount named) x (funds) x entry."""
        w, rng = self.w, self.rng
        p = self.pair(funded=True if rng.random() < 0.8 else None)
        actor = rng.choice(["attacker", "attacker", "trader1", "trader2"])
        led = w.ledger
        entry = rng.choice(["direct", "hook"])
        foreign_assets = [a for a in w.all_assets() if a not in p.assets]
        named = rng.choice([p.assets[0], p.assets[1], p.assets[0], p.assets[1]] + foreign_assets[:1] + [("t", w.rogue)])
        ni = p.idx(named) if named in p.assets else 0
        base = rel_amount(rng, p.reserves(led)[ni], w.scale_bits, cap=1 << 100)
        amt_mode = rng.choice(["eq", "less", "more", "zero_named", "eq"])
        delivered_amt = base
        named_amt = {"eq": base, "less": max(0, base - rng.choice([1, base // 2 + 1])),
                     "more": base + rng.choice([1, base]), "zero_named": 0}[amt_mode]
        cell = [entry, amt_mode]
        if entry == "hook":
            cands = [a for a in p.assets if a[0] == "t"] + [a for a in w.tokens if a not in p.assets][:1] + [("t", w.rogue)]
            delivered = rng.choice(cands)
            if delivered[1] == w.rogue and actor not in ("attacker", "trader1"):
                actor = "attacker"
            cell.append("deliv=" + ("named" if delivered == named else ("pairtok" if delivered in p.assets else "foreign")))
            op = w.op_swap_raw(actor, p, "hook", named, named_amt, delivered, delivered_amt, to=self.maybe_to(actor))
        else:
            fmode = rng.choice(["exact", "less", "more", "absent", "extra", "other_only", "lookalike", "other_only", "split",
                                "many_coins", "digit_prefix"])
            funds = []
            nat_named = named if named[0] == "n" else None
            if fmode == "exact" and nat_named:
                funds = [[nat_named[1], str(delivered_amt)]]
            elif fmode == "less" and nat_named and delivered_amt > 1:
                funds = [[nat_named[1], str(delivered_amt - 1)]]
            elif fmode == "more" and nat_named:
                funds = [[nat_named[1], str(delivered_amt + 1)]]
            elif fmode == "extra":
                if nat_named:
                    funds = [[nat_named[1], str(delivered_amt)]]
                others = [a for a in w.natives if a != nat_named]
                mine = [a for a in p.assets if a[0] == "n" and a != nat_named]
                if mine and rng.random() < 0.6:
                    # the pair's OTHER coin attached as well (as for a provision), in amounts comparable to its reserve
                    o = mine[0]
                    ro = p.reserves(led)[p.idx(o)]
                    funds.append([o[1], str(max(1, min(led.get(actor, o[1]), rng.choice([ro, 2 * ro, ro // 3 + 1, rel_amount(rng, ro, w.scale_bits, cap=1 << 100)]))))])
                elif others:
                    o = rng.choice(others)
                    funds.append([o[1], str(rng.choice([1, base]))])
            elif fmode == "other_only":
                others = [a for a in w.natives if a != nat_named]
                if others:
                    funds = [[rng.choice(others)[1], str(delivered_amt)]]
            elif fmode == "split" and nat_named:
                others = [a for a in w.natives if a != nat_named]
                if others:
                    funds = [[nat_named[1], str(max(1, delivered_amt + rng.choice([-1, 1, 1 - delivered_amt])))],
                             [rng.choice(others)[1], str(named_amt if named_amt > 0 else delivered_amt)]]
            elif fmode == "lookalike" and nat_named and nat_named[1] in w.lookalikes:
                funds = [[w.lookalikes[nat_named[1]], str(delivered_amt)]]
                if actor not in ("attacker", "trader1", "trader2", "lp1"):
                    actor = "attacker"
            elif fmode == "many_coins" and nat_named:
                # the named coin sits behind more than 30 other coins in the (sorted) funds list
                actor = "attacker"
                funds = [[d_, "1"] for d_ in w.junk_denoms[:rng.choice([29, 30, 31, 34])]]
                if rng.random() < 0.5:
                    named_amt = 0
                funds.append([nat_named[1], str(max(1, delivered_amt if amt_mode != "eq" or rng.random() < 0.5 else delivered_amt + 1))])
            elif fmode == "digit_prefix" and nat_named and named_amt > 0:
                # k of the coin "000<denom>" prints as "k000<denom>", exactly like k000 of <denom>
                actor = "attacker"
                k = max(1, named_amt // 1000)
                named_amt = k * 1000
                funds = [[w.digit_denoms[nat_named[1]], str(k)]]
            cell.append("funds=" + fmode)
            op = w.op_swap_raw(actor, p, "direct", named, named_amt, None, 0, to=self.maybe_to(actor),
                               funds_override=sorted(funds))
        if rng.random() < 0.12:
            # kind confusion: one of the pair's assets named by its exact identifier under the OTHER kind
            real = rng.choice(p.assets)
            fake = ("t", real[1]) if real[0] == "n" else ("n", real[1])
            amt = rel_amount(rng, p.reserves(led)[p.idx(real)], w.scale_bits, cap=1 << 100)
            if fake[0] == "n":
                funds = [[fake[1], str(amt)]] if (fake[1] in w.addr_denoms and rng.random() < 0.8) else []
                op = w.op_swap_raw("attacker", p, "direct", fake, amt, None, 0, to=self.maybe_to("attacker"), funds_override=sorted(funds))
            else:
                op = w.op_swap_raw("attacker", p, "direct", fake, amt, None, 0, to=self.maybe_to("attacker"),
                                   funds_override=sorted([[w.natives[0][1], "1"]] if rng.random() < 0.5 else []))
            op["sem"]["cell"] = "direct/kind_confusion/" + fake[0]
            op["sem"]["malformed_gen"] = True
            return op, []
        cell.append("named=" + ("a%d" % p.idx(named) if named in p.assets else ("rogue" if named[1] == w.rogue else "foreign")))
        op["sem"]["cell"] = "/".join(cell)
        op["sem"]["malformed_gen"] = True
        return op, (self.sim_quote(p, named, named_amt) if named in p.assets else [])

    # -- exhaustive walks (finite spaces enumerated per sampled world state) ---------------------------------
    FUNDS_MODES = ["exact", "less", "more", "absent", "extra", "other_only", "lookalike", "split"]
    AMT_MODES = ["eq", "less", "more", "zero_named"]

    def swap_cell(self, p, actor, entry, named, amt_mode, how, base, to=None):
        """one cell of the swap cross product, built deterministically. `how` = funds mode (direct) or the delivered
        token (hook). Returns (op, quotes) or None when the cell does not exist in this world."""
        w = self.w
        named_amt = {"eq": base, "less": max(0, base - 1), "more": base + 1, "zero_named": 0}[amt_mode]
        cell = [entry, amt_mode]
        if entry == "hook":
            delivered = how
            if w.ledger.get(actor, delivered[1]) < base:
                return None
            cell.append("deliv=" + ("named" if delivered == named else ("pairtok" if delivered in p.assets else "foreign")))
            op = w.op_swap_raw(actor, p, "hook", named, named_amt, delivered, base, to=to)
        else:
            nat = named if named[0] == "n" else None
            others = [a for a in w.natives if a != nat]
            funds = []
            if how == "exact":
                funds = [[nat[1], str(base)]] if nat else []
            elif how == "less":
                funds = [[nat[1], str(base - 1)]] if (nat and base > 1) else []
            elif how == "more":
                funds = [[nat[1], str(base + 1)]] if nat else []
            elif how == "absent":
                funds = []
            elif how == "extra":
                if not others:
                    return None
                funds = ([[nat[1], str(base)]] if nat else []) + [[others[0][1], str(base)]]
            elif how == "other_only":
                if not others:
                    return None
                funds = [[others[-1][1], str(base)]]
            elif how == "lookalike":
                if not (nat and nat[1] in w.lookalikes):
                    return None
                funds = [[w.lookalikes[nat[1]], str(base)]]
            elif how == "split":
                if not (nat and others):
                    return None
                funds = [[nat[1], str(base + 1)], [others[0][1], str(named_amt if named_amt > 0 else base)]]
            if any(w.ledger.get(actor, w.denom_key(d)) < int(a) for d, a in funds):
                return None
            cell.append("funds=" + how)
            op = w.op_swap_raw(actor, p, "direct", named, named_amt, None, 0, to=to, funds_override=sorted(funds))
        cell.append("named=" + ("a%d" % p.idx(named) if named in p.assets else ("rogue" if named[1] == w.rogue else "foreign")))
        op["sem"]["cell"] = "/".join(cell)
        op["sem"]["malformed_gen"] = True
        op["sem"]["walk"] = True
        return op, (self.sim_quote(p, named, named_amt) if named in p.assets else [])

    def walk_swap_cells(self, p):
        """every cell of (entry) x (asset named) x (amount named) x (funds | token delivered) for one pair"""
        w = self.w
        led = w.ledger
        foreign = [a for a in w.all_assets() if a not in p.assets][:1]
        names = [p.assets[0], p.assets[1]] + foreign + [("t", w.rogue)]
        deliverables = [a for a in p.assets if a[0] == "t"] + [a for a in w.tokens if a not in p.assets][:1] + [("t", w.rogue)]
        for named in names:
            ni = p.idx(named) if named in p.assets else 0
            r = p.reserves(led)[ni]
            base = max(2, min(r // 7 + 3, 1 << 100))
            for amt_mode in self.AMT_MODES:
                for fm in self.FUNDS_MODES:
                    c = self.swap_cell(p, "attacker", "direct", named, amt_mode, fm, base, to=None)
                    if c:
                        yield c
                for dv in deliverables:
                    c = self.swap_cell(p, "attacker", "hook", named, amt_mode, dv, base, to=None)
                    if c:
                        yield c

    def walk_paths(self):
        """every route of the pair graph (simple paths, cycles, routes revisiting their final asset), both well-formed"""
        w = self.w
        for k, hops in enumerate(self.paths()):
            first = w.pair_for(*hops[0])
            x = first.reserves(w.ledger)[first.idx(hops[0][0])]
            amount = max(1, x // 50 + 1)
            actor = "trader1" if k % 2 else "trader2"
            if w.ledger.get(actor, hops[0][0][1]) < amount:
                continue
            op = w.op_route(actor, hops, amount, minimum_receive=None, to=("recv" if k % 3 else None))
            op["sem"]["walk"] = True
            yield op, [w.q_route_sim(hops, amount)]

    def g_provide(self, first=False):
        w, rng = self.w, self.rng
        led = w.ledger
        p = self.pair(funded=not first)
        S = p.supply(led)
        r0, r1 = p.reserves(led)
        if S == 0:
            actor = rng.choice(p.whitelist) if (p.whitelist and rng.random() < 0.8) else self.actor()
            sb = w.scale_bits
            d0 = max(1, rng.getrandbits(max(1, sb + rng.randrange(-4, 5))))
            skew = rng.choice([0, 0, 0, rng.randrange(-40, 41)])
            d1 = max(1, min(1 << 100, int(d0 * 2.0 ** skew))) if skew else max(1, rng.getrandbits(max(1, sb + rng.randrange(-4, 5))))
            r_ = rng.random()
            if r_ < 0.3:
                d0, d1 = max(d0, p.mins[0]), max(d1, p.mins[1])
            elif r_ < 0.45:
                # around the configured minimums, either side short by one
                d0 = max(1, p.mins[0] + rng.choice([-1, 0, 0, 1])) if p.mins[0] else d0
                d1 = max(1, p.mins[1] + rng.choice([-1, 0, 0, 1])) if p.mins[1] else d1
            elif r_ < 0.5 and p.mins[0] != p.mins[1]:
                # satisfies the minimums only if they are compared with the wrong deposit
                d0, d1 = max(1, p.mins[1]), max(1, p.mins[0])
            if rng.random() < 0.08:
                # a deep, exactly balanced pool (dust swaps on it sit on the rounding edges of both the payout and the spread)
                d0 = d1 = max(rng.choice([1 << 63, 3 * 10 ** 18, 10 ** 19, (1 << 64) - 1]), p.mins[0], p.mins[1])
            while d0 * d1 >= 1 << 190:
                d0 = max(1, d0 >> 4)
                d1 = max(1, d1 >> 4)
            amounts = [max(0, d0), max(0, d1)]
        else:
            actor = self.actor()
            mode = rng.random()
            d0 = rel_amount(rng, r0, w.scale_bits, cap=max(1, led.get(actor, p.assets[0][1])))
            if mode < 0.6 and r0 > 0:
                d1 = d0 * r1 // r0 + rng.choice([-1, 0, 0, 1, 1])
            elif mode < 0.75 and r0 > 0 and S > 0:
                # share-threshold: d_i*S/r_i near an integer boundary
                m = rng.choice([1, 2, rng.randrange(1, max(2, S))])
                d0 = max(1, (m * r0 + S - 1) // S + rng.choice([-1, 0, 0]))
                d1 = max(1, (m * r1 + S - 1) // S + rng.choice([-1, 0, 0]))
            else:
                d1 = rel_amount(rng, r1, w.scale_bits, cap=max(1, led.get(actor, p.assets[1][1])))
            amounts = [max(0, d0), max(0, d1)]
            if rng.random() < 0.04:
                amounts[rng.randrange(2)] = 0
        slippage = None
        if rng.random() < 0.3:
            slippage = rng.choice([0, 1, 10 ** 15, 10 ** 16, 5 * 10 ** 16, 5 * 10 ** 17, D - 1, D, D + 1, rng.randrange(0, D)])
            if S == 0 and rng.random() < 0.4:
                slippage = rng.choice([D + 1, D + 10 ** 16, 2 * D, D + rng.randrange(1, D)])
        receiver = None
        if rng.random() < 0.25:
            receiver = rng.choice(self.recipients)
        if S == 0 and actor not in p.whitelist and p.whitelist and rng.random() < 0.5:
            receiver = rng.choice(p.whitelist)   # stranger provides "for" a whitelisted account
        r_ = rng.random()
        if r_ < 0.05:
            receiver = rng.choice([p.addr, p.lp, w.router, w.factory] + [a[1] for a in p.assets if a[0] == "t"])   # contracts as LP receivers
        elif r_ < 0.07:
            receiver = rng.choice(["Recv", "re", "", "r" * 64])     # not an address: the call must fail
        op = w.op_provide(actor, p, amounts, receiver=receiver, slippage=slippage, reverse=rng.random() < 0.3)
        return op, [(p.addr, {"pool": {}})]

    def g_provide_malformed(self):
        w, rng = self.w, self.rng
        p = self.pair()
        led = w.ledger
        actor = self.actor()
        r0, r1 = p.reserves(led)
        d = [rel_amount(rng, r0, w.scale_bits, 1 << 100), rel_amount(rng, r1, w.scale_bits, 1 << 100)]
        nat = [i for i in (0, 1) if p.assets[i][0] == "n"]
        mode = rng.choice(["less", "more", "absent", "zero_named", "swap_amounts", "extra", "wrong_asset", "other_only", "lookalike",
                           "same_asset_twice", "split"])
        if p.supply(led) == 0 and p.whitelist and rng.random() < 0.7:
            actor = rng.choice(p.whitelist)      # an entitled first provider with malformed funds
            d = [max(d[0], p.mins[0]), max(d[1], p.mins[1])]
        if mode == "same_asset_twice":
            # both entries name the SAME pair asset (the other asset is never named)
            k = rng.randrange(2)
            op = w.op_provide(actor, p, d)
            info = ainfo(p.assets[k])
            for a_ in op["msg"]["provide_liquidity"]["assets"]:
                a_["info"] = info
            if p.assets[k][0] == "n":
                amt = rng.choice(d)
                for a_ in op["msg"]["provide_liquidity"]["assets"]:
                    if rng.random() < 0.7:
                        a_["amount"] = str(amt)
                op["funds"] = [[p.assets[k][1], str(amt)]]
            else:
                op["funds"] = []
            op["sem"]["funds"] = [(d_, int(a_)) for d_, a_ in op["funds"]]
            op["sem"]["well_formed"] = False
            op["sem"]["mal_mode"] = "wrong_asset"
            op["kind"] = "provide_malformed"
            return op, []
        funds = dict((p.assets[i][1], d[i]) for i in nat)
        if mode == "wrong_asset":
            others = [a for a in w.all_assets() if a not in p.assets]
            op = w.op_provide(actor, p, d)
            if rng.random() < 0.5:
                # kind confusion: a pair asset named by its identifier under the other kind (no coins for it)
                k = rng.randrange(2)
                real = p.assets[k]
                fake = ("t", real[1]) if real[0] == "n" else ("n", real[1])
                for a_ in op["msg"]["provide_liquidity"]["assets"]:
                    if a_["info"] == ainfo(real):
                        a_["info"] = ainfo(fake)
                op["funds"] = [f for f in op["funds"] if f[0] != real[1]]
                op["sem"]["funds"] = [(d_, int(a_)) for d_, a_ in op["funds"]]
            elif others:
                op["msg"]["provide_liquidity"]["assets"][rng.randrange(2)]["info"] = ainfo(rng.choice(others))
            op["sem"]["well_formed"] = False
            op["sem"]["mal_mode"] = mode
            op["kind"] = "provide_malformed"
            return op, []
        if nat:
            i = rng.choice(nat)
            dn = p.assets[i][1]
            if mode in ("absent", "less", "zero_named") and len(nat) == 2 and rng.random() < 0.4:
                # both declared amounts exactly equal (the coin found for one asset must not answer for the other)
                d = [d[0], d[0]]
                funds = dict((p.assets[j][1], d[j]) for j in nat)
            if mode == "less":
                funds[dn] = max(0, d[i] - 1)
            elif mode == "more":
                funds[dn] = d[i] + 1
            elif mode == "absent":
                del funds[dn]
            elif mode == "zero_named":
                d[i] = 0
            elif mode == "swap_amounts" and len(nat) == 2:
                funds = {p.assets[0][1]: d[1], p.assets[1][1]: d[0]}
            elif mode == "extra":
                others = [a for a in w.natives if a not in p.assets]
                if others:
                    funds[rng.choice(others)[1]] = rng.choice([1, d[i]])
            elif mode == "other_only":
                # the declared denom is absent; one unrelated coin of exactly the declared amount is attached instead
                others = [a for a in w.natives if a not in p.assets]
                if others:
                    del funds[dn]
                    funds[rng.choice(others)[1]] = d[i]
            elif mode == "lookalike" and dn in w.lookalikes:
                del funds[dn]
                funds[w.lookalikes[dn]] = d[i]
                actor = rng.choice(["attacker", "trader1", "trader2", "lp1"])
            elif mode == "split":
                # the declared denom is attached with another amount, and ANOTHER coin carries exactly the declared amount
                others = [a for a in w.natives if a not in p.assets]
                if others:
                    funds[dn] = max(1, d[i] + rng.choice([-1, 1, -d[i] + 1]))
                    funds[rng.choice(others)[1]] = d[i]
        fo = sorted([k, str(v)] for k, v in funds.items() if v > 0)
        op = w.op_provide(actor, p, d, funds_override=fo, reverse=rng.random() < 0.3,
                          receiver=rng.choice([None, None, "recv"]))
        op["sem"]["mal_mode"] = mode
        op["kind"] = "provide_malformed"
        return op, [(p.addr, {"pool": {}})]

    def g_withdraw(self):
        w, rng = self.w, self.rng
        led = w.ledger
        cands = []
        for p in w.pairs:
            for a in HOLDERS:
                b = led.get(a, p.lp)
                if b > 0:
                    cands.append((p, a, b))
        if not cands:
            return self.g_provide(first=True)
        p, actor, bal = rng.choice(cands)
        S = p.supply(led)
        r = rng.random()
        if r < 0.15:
            amt = 1
        elif r < 0.35:
            amt = bal
        elif r < 0.5:
            # threshold amounts: a*D mod S on the edges
            q = rng.randrange(1, max(2, min(bal, 1 << 60)))
            amt = max(1, min(bal, (q * S + D - 1) // D + rng.choice([-1, 0, 0, 1])))
        elif r < 0.55:
            amt = bal + 1
        else:
            amt = rng.randrange(1, bal + 1)
        return w.op_withdraw(actor, p, amt), [(p.addr, {"pool": {}})]

    def paths(self, maxlen=4):
        """All simple paths (distinct assets => distinct pairs) of length 1..maxlen over the pair graph."""
        if getattr(self, "_paths_n", None) == len(self.w.pairs):
            return self._paths
        adj = {}
        for p in self.w.pairs:
            adj.setdefault(p.assets[0], []).append(p.assets[1])
            adj.setdefault(p.assets[1], []).append(p.assets[0])
        out = []

        def rec(path):
            if len(path) > 1:
                out.append([(path[i], path[i + 1]) for i in range(len(path) - 1)])
            if len(path) > maxlen:
                return
            for nx in adj.get(path[-1], []):
                if nx not in path:
                    rec(path + [nx])
        for a in adj:
            rec([a])
        # cycles returning to the start asset (final asset = input asset), length 3..4 over distinct pairs
        for a in adj:
            def cyc(path):
                if len(path) >= 3 and a in adj.get(path[-1], []) and len(path) <= maxlen:
                    hops = [(path[i], path[i + 1]) for i in range(len(path) - 1)] + [(path[-1], a)]
                    out.append(hops)
                if len(path) >= maxlen:
                    return
                for nx in adj.get(path[-1], []):
                    if nx not in path:
                        cyc(path + [nx])
            cyc([a])
        # "lollipop" routes: a tail into a 3-cycle, ending on the revisited asset (X -> T -> Y -> Z -> T), distinct pairs
        lolli = []
        for hops in list(out):
            if len(hops) == 3 and hops[0][0] == hops[-1][1]:
                t = hops[0][0]
                inside = set(a for h in hops for a in h)
                for x in adj.get(t, []):
                    if x not in inside:
                        lolli.append([(x, t)] + hops)
        out += lolli
        self._paths, self._paths_n = out, len(self.w.pairs)
        return out

    def g_route(self, hops=None, amount=None, actor=None):
        w, rng = self.w, self.rng
        led = w.ledger
        actor = actor or self.actor()
        if hops is None:
            ps = self.paths()
            if rng.random() < 0.85:
                # prefer routes whose pairs all hold both reserves
                live = set(p.addr for p in w.pairs if min(p.reserves(led)) > 0)
                good = [h for h in ps if all(w.pair_for(o, a).addr in live for o, a in h)]
                ps = good or ps
            # prefer longer routes a bit
            hops = rng.choice(ps)
            if len(hops) == 1 and rng.random() < 0.5:
                hops = rng.choice(ps)
            if rng.random() < 0.1:
                longest = [h for h in ps if len(h) >= 4]
                if longest:
                    hops = rng.choice(longest)
        first = w.pair_for(*hops[0])
        x = first.reserves(led)[first.idx(hops[0][0])] if first else 0
        if amount is None:
            cap = max(1, led.get(actor, hops[0][0][1]))
            if rng.random() < 0.7 and x > 0:
                amount = max(1, min(cap, int(x * 2 ** rng.uniform(-8, 1))))
            else:
                amount = rel_amount(rng, x, w.scale_bits, cap=cap)
        quotes = [w.q_route_sim(hops, amount)]
        return {"hops": hops, "amount": amount, "actor": actor}, quotes

    def finish_route(self, spec, quote_amount):
        w, rng = self.w, self.rng
        actor = spec["actor"]
        m = None
        r = rng.random()
        if r < 0.75:
            q = quote_amount if quote_amount is not None else rng.getrandbits(40)
            m = rng.choice([max(0, q - 1), q, q + 1, 0, 1 << 127, q, max(0, q - rng.randrange(0, max(1, q // 100 + 2)))])
        to = None
        r = rng.random()
        if r < 0.15:
            to = actor
        elif r < 0.45:
            to = rng.choice(self.recipients)
        elif r < 0.5:
            to = rng.choice([p.addr for p in w.pairs] + [w.router, w.router, w.factory] + [t[1] for t in w.tokens] + [w.pairs[0].lp])
        elif r < 0.52:
            to = rng.choice(["Recv", "re", "", "r" * 64, "Trader1"])   # not an address: the route must fail as a whole
        elif r < 0.55:
            to = rng.choice([" recv", "recv "])     # blanks are part of the name: another account than `recv` (if accepted at all)
        hops = spec["hops"]
        final = hops[-1][1]
        revisit = final in [a for _, a in hops[:-1]] or final == hops[0][0]
        if revisit and rng.random() < 0.35:
            # the recipient is a contract that itself pays out the final asset during the route
            pools = [w.pair_for(o, a) for o, a in hops]
            payers = [p.addr for (o, a), p in zip(hops[:-1], pools[:-1]) if p and a == final] + [w.router]
            to = rng.choice(payers)
            q = quote_amount if quote_amount is not None else rng.getrandbits(40)
            m = rng.choice([q + 1, q + 1 + rng.randrange(0, q + 2), 2 * q + 1, max(0, q - 1), 1])
        if getattr(w, "whale", False) and final[0] == "n" and quote_amount and quote_amount < (1 << 100) and rng.random() < 0.06:
            # the recipient is filled up so that the delivery takes it to exactly 2^128-1 (prev + minimum wraps past u128)
            to = "whale_recv"
            cur = w.ledger.get("whale_recv", final[1])
            target = M128 - quote_amount
            if target > cur and w.x_bank("whale", "whale_recv", [[final[1], str(target - cur)]])["r"] == "ok":
                w.retrack()
                m = rng.choice([quote_amount + 1, quote_amount + 1, quote_amount, 2 * quote_amount + 5, M128])
        op = w.op_route(actor, spec["hops"], spec["amount"], minimum_receive=m, to=to)
        op["sem"]["quote"] = quote_amount
        if final[0] == "t" and rng.random() < 0.08:
            # the same final token, its address written in another letter case in the LAST hop only (addresses are
            # case-insensitive for the registry): monitors keep the normalised asset
            inner = op["msg"]["execute_swap_operations"] if "execute_swap_operations" in op["msg"] else None
            if inner is not None:
                inner["operations"][-1]["halo_swap"]["ask_asset_info"] = {"token": {"contract_addr": final[1].upper()}}
                op["sem"]["spelling"] = "upper_final"
        return op

    def g_route_bad(self):
        """Empty, dangling, merging and non-chain routes: must be rejected or satisfy every router equation."""
        w, rng = self.w, self.rng
        actor = self.actor()
        A = w.all_assets()
        mode = rng.choice(["empty", "dangling", "merge", "unknown_pair", "wrong_entry", "repeat_pair", "identity_hop",
                           "repeat_hop", "side_branch", "forged_hook"])
        ps = self.paths()
        if mode == "forged_hook":
            # the router's cw20 hook called directly by an account, claiming an amount (0 or more) that no token delivered:
            # whatever the router does with its own stray balances, a success must still deliver at least minimum_receive
            hops = rng.choice(ps)
            m = rng.choice([1, 1, rng.getrandbits(40) + 1, M128])
            to = rng.choice([None, "recv", actor])
            claimed = rng.choice([0, 0, 0, 1, rng.getrandbits(40)])
            inner = {"execute_swap_operations": {"operations": w.route_ops_json(hops), "minimum_receive": str(m), "to": to}}
            op = {"kind": "route_bad", "actor": actor, "contract": w.router,
                  "msg": {"receive": {"sender": actor, "amount": str(claimed), "msg": b64(inner)}}, "funds": [],
                  "sem": {"hops": list(hops), "amount": 0, "min": m, "to": to, "entry_asset": hops[0][0], "funds": [],
                          "bad_mode": "forged_hook"}}
            return op, [w.q_route_sim(hops, max(1, claimed))]
        if mode == "repeat_hop":
            op = self.repeat_hop_route(actor)
            if op is not None:
                return op
            mode = "repeat_pair"
        if mode == "side_branch":
            op = self.side_branch_route(actor)
            if op is not None:
                return op
            mode = "dangling"
        if mode == "empty":
            hops = []
        elif mode == "dangling":
            # candidates where every branch can be funded by its own native coin
            cands = []
            for p_ in w.pairs:
                for q_ in w.pairs:
                    if p_ is q_:
                        continue
                    for o1 in p_.assets:
                        for o2 in q_.assets:
                            a1, a2 = p_.other(o1), q_.other(o2)
                            if o1[0] == "n" and o2[0] == "n" and o1 != o2 and a1 != a2 and a1 != o2:
                                cands.append(((o1, a1), (o2, a2)))
            if cands and rng.random() < 0.6:
                long_ = [c for c in cands if c[0][1][1].startswith("factory/") and c[1][1][1].startswith("factory/")]
                h = rng.choice(long_ if (long_ and rng.random() < 0.7) else cands)
                amount = rel_amount(rng, 1 << w.scale_bits, w.scale_bits, 1 << 100)
                op = w.op_route(actor, [h[0], h[1]], amount, minimum_receive=rng.choice([None, None, 0, 1]), to=rng.choice([None, "recv"]),
                                extra_funds=[(h[1][0][1], rel_amount(rng, 1 << w.scale_bits, w.scale_bits, 1 << 100))])
                op["sem"]["bad_mode"] = "dangling"
                op["kind"] = "route_bad"
                return op, [w.q_route_sim([h[0], h[1]], amount)]
            h1, h2 = rng.choice(ps), rng.choice(ps)
            hops = h1[:1] + [h for h in h2[:1] if h[1] != h1[0][1] and h[0] != h1[0][1]]
            if len(hops) == 2 and hops[0][0][0] == "n" and hops[1][0][0] == "n" and hops[0][0] != hops[1][0] and rng.random() < 0.8:
                # every branch gets its own input coin: nothing but the shape check can stop this route
                amount = rel_amount(rng, 1 << w.scale_bits, w.scale_bits, 1 << 100)
                op = w.op_route(actor, hops, amount, minimum_receive=rng.choice([None, None, 0, 1]), to=rng.choice([None, "recv"]),
                                extra_funds=[(hops[1][0][1], rel_amount(rng, 1 << w.scale_bits, w.scale_bits, 1 << 100))])
                op["sem"]["bad_mode"] = "dangling"
                op["kind"] = "route_bad"
                return op, [w.q_route_sim(hops, amount)]
        elif mode == "merge":
            # [A->B, C->B]
            cands = [(p, q) for p in w.pairs for q in w.pairs if p is not q and set(p.assets) & set(q.assets)]
            if cands:
                p, q = rng.choice(cands)
                common = list(set(p.assets) & set(q.assets))[0]
                hops = [(p.other(common), common), (q.other(common), common)]
            else:
                hops = []
        elif mode == "unknown_pair":
            a, b = rng.sample(A, 2)
            hops = [(a, b)] if not w.pair_for(a, b) else [(a, ("t", w.rogue))]
        elif mode == "identity_hop":
            # a hop asking for the asset it offers (no such pair can exist), inside an otherwise executable chain
            base = list(rng.choice(ps))
            k = rng.randrange(0, len(base) + 1)
            x = base[k][0] if k < len(base) else base[-1][1]
            hops = base[:k] + [(x, x)] + base[k:]
            if rng.random() < 0.15:
                hops = [(x, x)]
        elif mode == "repeat_pair":
            h = rng.choice(ps)[:1]
            hops = h + [(h[0][1], h[0][0])] + (h if rng.random() < 0.5 else [])
        else:
            hops = rng.choice(ps)
        entry_asset = hops[0][0] if hops else rng.choice(A)
        if mode == "wrong_entry":
            entry_asset = rng.choice([a for a in A if a != hops[0][0]])
        amount = rel_amount(rng, 1 << w.scale_bits, w.scale_bits, 1 << 100)
        op = w.op_route(actor, hops, amount, minimum_receive=rng.choice([None, 0, 1]),
                        to=rng.choice([None, "recv"]), entry_asset=entry_asset)
        op["sem"]["bad_mode"] = mode
        op["kind"] = "route_bad"
        q = [w.q_route_sim(hops, amount)] if hops else []
        return op, q

    def repeat_hop_route(self, actor):
        """a chain that takes the SAME hop twice (X->Y->Z->X->Y around a triangle, or X->Y->X->Y): the router's own quote prices
        the repeated hop on the pre-route reserves, so quote != delivery; minimum_receive is placed between the two"""
        w, rng = self.w, self.rng
        led = w.ledger
        live = [p for p in w.pairs if min(p.reserves(led)) > 0]
        routes = []
        for p1 in live:
            for X in p1.assets:
                Y = p1.other(X)
                routes.append([(X, Y), (Y, X), (X, Y)])
                for p2 in live:
                    if p2 is p1 or Y not in p2.assets:
                        continue
                    Z = p2.other(Y)
                    p3 = w.pair_for(Z, X)
                    if Z != X and p3 in live and p3 is not p1 and p3 is not p2:
                        routes.append([(X, Y), (Y, Z), (Z, X), (X, Y)])
        if not routes:
            return None
        tri = [r for r in routes if len(r) == 4]
        hops = rng.choice(tri if (tri and rng.random() < 0.7) else routes)
        first = w.pair_for(*hops[0])
        x = first.reserves(led)[first.idx(hops[0][0])]
        cap = max(1, led.get(actor, hops[0][0][1]))
        amount = max(1, min(cap, int(x * 2 ** rng.uniform(-7, 0.5))))
        qd = w.q_route_sim(hops, amount)
        qr = w.q(*qd)
        q = int(qr["v"]["amount"]) if qr["r"] == "ok" else None
        m = None
        if q is not None:
            m = rng.choice([q, q, max(0, q - 1), max(0, q - q // rng.choice([10, 100, 1000, 10 ** 6]) - 1), q + 1, None])
        op = w.op_route(actor, hops, amount, minimum_receive=m, to=rng.choice([None, None, "recv", actor]))
        op["sem"]["bad_mode"] = "repeat_hop"
        op["sem"]["quote"] = q
        op["kind"] = "route_bad"
        return op, [qd]

    def side_branch_route(self, actor):
        """[A->X, B->A, X->C] with coins A and B attached: the side branch re-produces an asset the chain has already spent
        (two outputs are left over: A and C)"""
        w, rng = self.w, self.rng
        led = w.ledger
        live = [p for p in w.pairs if min(p.reserves(led)) > 0]
        cands = []
        for p1 in live:
            for A in p1.assets:
                if A[0] != "n":
                    continue
                X = p1.other(A)
                for p2 in live:
                    if p2 is p1 or A not in p2.assets:
                        continue
                    B = p2.other(A)
                    if B[0] != "n" or B == X:
                        continue
                    for p3 in live:
                        if p3 in (p1, p2) or X not in p3.assets:
                            continue
                        C = p3.other(X)
                        if C not in (A, B):
                            cands.append([(A, X), (B, A), (X, C)])
        if not cands:
            return None
        hops = rng.choice(cands)
        other = hops[1][0]
        if rng.random() < 0.3:
            hops = [hops[0], hops[2], hops[1]]
        a0 = rel_amount(rng, w.pair_for(*hops[0]).reserves(led)[w.pair_for(*hops[0]).idx(hops[0][0])], w.scale_bits, 1 << 100)
        a1 = rel_amount(rng, 1 << w.scale_bits, w.scale_bits, 1 << 100)
        op = w.op_route(actor, hops, a0, minimum_receive=rng.choice([None, None, 0, 1]), to=rng.choice([None, "recv"]),
                        extra_funds=[(other[1], a1)])
        op["sem"]["bad_mode"] = "side_branch"
        op["kind"] = "route_bad"
        return op, [w.q_route_sim(hops, a0)]

    def g_donate(self):
        w, rng = self.w, self.rng
        actor = self.actor()
        r = rng.random()
        if r < 0.12:
            # a coin / token the pair does not trade, parked on the pair (must never disturb it)
            p = self.pair()
            foreign = [a for a in w.all_assets() if a not in p.assets] + [("t", w.rogue)]
            target, asset, res = p.addr, rng.choice(foreign), 1 << w.scale_bits
            if asset[1] == w.rogue:
                actor = "attacker"
            if rng.random() < 0.4 and (w.lookalikes or w.addr_denoms):
                actor = "attacker"
                asset = ("n", rng.choice(sorted(w.lookalikes.values()) + w.addr_denoms))
        elif r < 0.75:
            p = self.pair()
            target, asset = p.addr, rng.choice(p.assets)
            res = p.reserves(w.ledger)[p.idx(asset)]
        elif r < 0.9:
            target, asset, res = w.router, rng.choice(w.all_assets()), 1 << w.scale_bits
        else:
            target, asset, res = w.factory, rng.choice(w.all_assets()), 1 << w.scale_bits
        amt = rel_amount(rng, res, w.scale_bits, cap=1 << 118)
        return w.op_donate(actor, target, asset, amt), []

    def g_lp(self, burn):
        w, rng = self.w, self.rng
        led = w.ledger
        cands = [(p, a, led.get(a, p.lp)) for p in w.pairs for a in HOLDERS if led.get(a, p.lp) > 0]
        if not cands:
            return self.g_provide(first=True)
        p, actor, bal = rng.choice(cands)
        amt = rng.choice([1, bal, rng.randrange(1, bal + 1)])
        if burn:
            return w.op_lp_burn(actor, p, amt), []
        # plain LP transfers, also to the pair itself / the router / the LP token (stray LP parked on contracts)
        to = rng.choice([a for a in ACTORS if a != actor] + [p.addr, p.addr, w.router, p.lp])
        return w.op_lp_transfer(actor, p, to, amt), []

    def g_withdraw_via_token(self):
        """withdraw_liquidity arriving through one of the pair's asset tokens / a foreign token; half of the time the pair
        first gets some LP parked on it (plain transfer), so that a burn of the amount would be possible"""
        w, rng = self.w, self.rng
        led = w.ledger
        ps = [p for p in w.pairs if p.supply(led) > 0]
        if not ps:
            return self.g_provide(first=True)
        withtok = [p for p in ps if any(a[0] == "t" for a in p.assets)]
        p = rng.choice(withtok if (withtok and rng.random() < 0.8) else ps)
        parked = led.get(p.addr, p.lp)
        if parked == 0 and rng.random() < 0.5:
            hs = [(a, led.get(a, p.lp)) for a in HOLDERS if led.get(a, p.lp) > 1]
            if hs:
                a, b = rng.choice(hs)
                return w.op_lp_transfer(a, p, p.addr, max(1, b // rng.choice([2, 3, 10, 1000]))), []
        toks = [a for a in p.assets if a[0] == "t"] * 3 + [t for t in w.tokens if t not in p.assets][:1]
        if not toks:
            return self.g_withdraw()
        tok = rng.choice(toks)
        actor = rng.choice(["attacker", "trader1", "lp1", "trader2"])
        bal = led.get(actor, tok[1])
        amt = rng.choice([parked, max(1, parked // 2), parked + 1, 1, rng.getrandbits(30) + 1]) if parked else rng.getrandbits(30) + 1
        amt = max(1, min(amt, bal)) if bal else amt
        return w.op_withdraw_via(actor, p, tok, amt), []

    def g_freeze_token(self):
        """the issuer of the non-cw20-base token freezes it for a while (every call and query of it fails), holders try to
        withdraw from its pairs meanwhile, then it is restored. A frozen token cannot be paid out: a withdrawal either fails as a
        whole or pays the full pro-rata share of BOTH assets."""
        w, rng = self.w, self.rng
        if w.ltoken_at < 0:
            return self.g_withdraw()
        tok = w.tokens[w.ltoken_at]
        led = w.ledger
        if tok[1] not in w.frozen:
            self.freeze_budget = rng.choice([1, 2, 3])
            return {"kind": "freeze_token", "actor": "owner", "contract": tok[1], "msg": {}, "wasm_migrate": "ltoken",
                    "migrate_msg": json.dumps({"dead": True}), "freeze": True, "funds": [], "sem": {"token": tok}}, []
        if getattr(self, "freeze_budget", 0) > 0:
            self.freeze_budget -= 1
            cands = [(p, a, led.get(a, p.lp)) for p in w.pairs if tok in p.assets for a in HOLDERS if led.get(a, p.lp) > 0]
            if cands:
                p, actor, bal = rng.choice(cands)
                return w.op_withdraw(actor, p, rng.choice([bal, max(1, bal // 2), max(1, bal // 10)])), []
        return {"kind": "freeze_token", "actor": "owner", "contract": tok[1], "msg": {}, "wasm_migrate": "ltoken",
                "migrate_msg": json.dumps({"dead": False}), "freeze": False, "funds": [], "sem": {"token": tok}}, []

    def g_unauth(self):
        """Privileged / internal messages from non-authorised callers inside ordinary histories."""
        w, rng = self.w, self.rng
        actor = rng.choice(["attacker", "trader1", "lp1", "trader2"])
        p = self.pair()
        nat = rng.choice(w.natives)
        choices = [
            (w.factory, {"update_config": {"owner": actor, "token_code_id": None, "pair_code_id": None}}),
            (w.factory, {"add_native_token_decimals": {"denom": nat[1], "decimals": rng.choice([0, 6, 18])}}),
            (w.factory, {"migrate_pair": {"contract": p.addr, "code_id": None}}),
            (p.addr, {"update_native_token_decimals": {"denom": nat[1], "asset_decimals": [rng.randrange(19), rng.randrange(19)]}}),
            (p.addr, {"receive": {"sender": actor, "amount": str(rng.getrandbits(30) + 1), "msg": b64({"withdraw_liquidity": {}})}}),
            (p.addr, {"receive": {"sender": actor, "amount": "1000", "msg": b64({"swap": {"offer_asset": {"info": ainfo(p.assets[0]), "amount": "1000"}, "belief_price": None, "max_spread": None, "to": None}})}}),
            (w.router, {"execute_swap_operation": {"operation": {"halo_swap": {"offer_asset_info": ainfo(p.assets[0]), "ask_asset_info": ainfo(p.assets[1])}}, "to": actor}}),
            (w.router, {"assert_minimum_receive": {"asset_info": ainfo(p.assets[0]), "prev_balance": "0", "minimum_receive": "0", "receiver": actor}}),
        ]
        c, m = rng.choice(choices)
        return {"kind": "unauth", "actor": actor, "contract": c, "msg": m, "funds": [], "sem": {}}, []

    def g_transfer(self):
        w, rng = self.w, self.rng
        actor = self.actor()
        asset = rng.choice(w.all_assets())
        op = w.op_donate(actor, rng.choice([a for a in ACTORS if a != actor]), asset,
                         rel_amount(rng, 1 << w.scale_bits, w.scale_bits, 1 << 100))
        op["kind"] = "transfer"
        return op, []

    def g_add_decimals(self):
        w, rng = self.w, self.rng
        nat = rng.choice(w.natives)
        dec = rng.choice([0, 6, 8, 18, w.decimals[nat[1]]])
        if nat[1] in w.lookalikes and rng.random() < 0.2:
            # the look-alike coin (another coin altogether) gets (re-)registered: no pair trades it, nothing may change
            nat = ("n", w.lookalikes[nat[1]])
            dec = rng.choice([0, 6, 9, 18])
        if w.addr_dec and rng.random() < 0.15:
            # the registered denom spelled like a traded cw20's address gets other decimals: the token's pairs must not notice
            nat = ("n", rng.choice(sorted(w.addr_dec)))
            dec = rng.choice([0, 3, 6, 9, 18])
        funds = []
        if rng.random() < 0.4:
            # coins attached to the admin call itself (they belong to the factory afterwards, never to the pairs)
            funds = [[rng.choice(w.natives)[1], str(rng.choice([1, 2, 1000, 10 ** 6]))]]
        return {"kind": "add_decimals", "actor": "owner", "contract": w.factory,
                "msg": {"add_native_token_decimals": {"denom": nat[1], "decimals": dec}}, "funds": funds,
                "sem": {"denom": nat[1], "decimals": dec, "funds": [(d, int(a)) for d, a in funds]}}, []

    def g_owner_admin(self):
        """legitimate privileged operations by the owner: they must not change how pairs trade"""
        w, rng = self.w, self.rng
        p = self.pair()
        if rng.random() < 0.25:
            # the wasm admin (the deployer) migrates the factory / the router itself to the same code
            which = rng.choice(["factory", "router"])
            return {"kind": "owner_admin", "actor": "owner", "contract": w.factory if which == "factory" else w.router, "msg": {},
                    "wasm_migrate": which, "funds": [], "sem": {"pair": p, "self_migration": which}}, []
        c, m = rng.choice([
            (w.factory, {"migrate_pair": {"contract": p.addr, "code_id": rng.choice([None, w.codes["pair2"], w.codes["pair"]])}}),
            (w.factory, {"update_config": {"owner": None, "token_code_id": rng.choice([None, w.codes["cw20"]]), "pair_code_id": rng.choice([None, w.codes["pair2"]])}}),
            (w.factory, {"migrate_pair": {"contract": p.addr, "code_id": w.codes["pair2"]}}),
        ])
        return {"kind": "owner_admin", "actor": "owner", "contract": c, "msg": m, "funds": [], "sem": {"pair": p}}, []

    # -- intents: quote now, execute after k foreign ops ---------------------------
    def make_intent(self):
        w, rng = self.w, self.rng
        led = w.ledger
        kind = rng.choice(["swap", "swap", "route", "provide", "swap", "swap", "route", "provide", "drain"])
        actor = rng.choice(["trader1", "trader2", "lp1"])
        delay = rng.choice([0, 1, 1, 2, 3])
        if kind == "drain":
            # full exit of every holder of one pair (supply falls to the reserved unit), optional donation,
            # then a fresh provision by a whitelisted / other actor
            cands = [p for p in w.pairs if p.supply(led) > 1]
            if not cands:
                return None
            p = rng.choice(cands)
            n = 0
            for a in HOLDERS:
                if led.get(a, p.lp) > 0:
                    self.pending.append({"kind": "withdraw_all", "actor": a, "pair": p, "due": self.count + n, "born": self.count})
                    n += 1
            if rng.random() < 0.5:
                self.pending.append({"kind": "donate_small", "actor": "attacker", "pair": p, "due": self.count + n, "born": self.count})
                n += 1
            who = rng.choice(p.whitelist) if p.whitelist and rng.random() < 0.8 else rng.choice(ACTIVE)
            self.pending.append({"kind": "reprovide", "actor": who, "pair": p, "due": self.count + n + rng.choice([0, 1]), "born": self.count})
            return True
        if kind == "swap":
            p = self.pair(funded=True)
            i = rng.randrange(2)
            offer = p.assets[i]
            x = p.reserves(led)[i]
            amount = max(1, min(rel_amount(rng, x, w.scale_bits, cap=max(1, led.get(actor, offer[1]))), max(1, x)))
            qr = w.q(*w.q_sim(p, offer, amount))
            if qr["r"] != "ok":
                return None
            ret = int(qr["v"]["return_amount"])
            self.pending.append({"kind": "swap", "actor": actor, "pair": p, "offer": offer, "amount": amount,
                                 "quote_ret": ret, "due": self.count + delay, "born": self.count})
        elif kind == "route":
            spec, quotes = self.g_route(actor=actor)
            qr = w.q(*quotes[0])
            if qr["r"] != "ok":
                return None
            spec.update({"kind": "route", "quote": int(qr["v"]["amount"]), "due": self.count + delay, "born": self.count})
            self.pending.append(spec)
        else:
            p = self.pair(funded=True)
            r0, r1 = p.reserves(led)
            if r0 == 0 or r1 == 0:
                return None
            d0 = max(1, min(rel_amount(rng, r0, w.scale_bits, cap=1 << 100), r0 * 4))
            d1 = max(1, d0 * r1 // r0)
            self.pending.append({"kind": "provide", "actor": actor, "pair": p, "amounts": [d0, d1],
                                 "due": self.count + delay, "born": self.count})
        return True

    def fire_intent(self, it):
        w, rng = self.w, self.rng
        stale = self.count - it["born"]
        if it["kind"] == "withdraw_all":
            bal = w.ledger.get(it["actor"], it["pair"].lp)
            op = w.op_withdraw(it["actor"], it["pair"], max(1, bal))
            op["sem"]["after"] = "drain"
            return op, [(it["pair"].addr, {"pool": {}})]
        if it["kind"] == "donate_small":
            p = it["pair"]
            return w.op_donate(it["actor"], p.addr, rng.choice(p.assets), rng.choice([1, 1000, 10 ** 6, 1 << w.scale_bits])), []
        if it["kind"] == "reprovide":
            p = it["pair"]
            sb = w.scale_bits
            d0 = max(1, rng.getrandbits(max(1, sb + rng.randrange(-4, 5))))
            d1 = max(1, rng.getrandbits(max(1, sb + rng.randrange(-4, 5))))
            r0, r1 = p.reserves(w.ledger)
            if r0 > 0 and r1 > 0 and rng.random() < 0.5:
                d1 = max(1, d0 * r1 // r0)
            op = w.op_provide(it["actor"], p, [d0, d1], receiver=rng.choice([None, None, "recv"]))
            op["sem"]["after_drain"] = True
            return op, [(p.addr, {"pool": {}})]
        if it["kind"] == "swap":
            p, offer, amount = it["pair"], it["offer"], it["amount"]
            i = p.idx(offer)
            do, da = p.decimals[i], p.decimals[1 - i]
            ret = it["quote_ret"]
            belief = None
            if ret > 0:
                # belief price = offer/quoted_return in decimals-normalised units
                num = amount * 10 ** max(da - do, 0) * D
                den = ret * 10 ** max(do - da, 0)
                belief = num // den + rng.choice([0, 0, 1])
                if belief <= 0 or belief > M128:
                    belief = None
            ms = rng.choice([0, 1, 10 ** 14, 10 ** 15, 5 * 10 ** 15, 10 ** 16, 5 * 10 ** 16])
            op = w.op_swap(it["actor"], p, offer, amount, belief=belief, max_spread=ms, to=self.maybe_to(it["actor"]))
            op["sem"]["stale"] = stale
            return op, self.sim_quote(p, offer, amount)
        if it["kind"] == "route":
            op = self.finish_route(it, it["quote"])
            op["sem"]["stale"] = stale
            return op, [w.q_route_sim(it["hops"], it["amount"])]
        p = it["pair"]
        op = w.op_provide(it["actor"], p, it["amounts"],
                          slippage=rng.choice([0, 1, 10 ** 15, 10 ** 16, 5 * 10 ** 16, 10 ** 17, 5 * 10 ** 17]))
        op["sem"]["stale"] = stale
        return op, [(p.addr, {"pool": {}})]

    # -- main ------------------------------------------------------------------------
    def next(self):
        self.count += 1
        due = [it for it in self.pending if it["due"] <= self.count]
        if due:
            it = due[0]
            self.pending.remove(it)
            return self.fire_intent(it)
        k = self.rng.choices(self.kinds, self.wts)[0]
        if k == "intent":
            self.make_intent()
            k = self.rng.choices(self.kinds, self.wts)[0]
            if k == "intent":
                k = "swap"
        if k == "swap":
            return self.g_swap()
        if k == "swap_window":
            return self.g_swap(window=True)
        if k == "swap_malformed":
            return self.g_swap_malformed()
        if k == "provide":
            return self.g_provide()
        if k == "provide_first":
            return self.g_provide(first=True)
        if k == "provide_malformed":
            return self.g_provide_malformed()
        if k == "withdraw":
            return self.g_withdraw()
        if k == "route":
            spec, quotes = self.g_route()
            qr = self.w.q(*quotes[0])
            q = int(qr["v"]["amount"]) if qr["r"] == "ok" else None
            return self.finish_route(spec, q), quotes
        if k == "route_bad":
            return self.g_route_bad()
        if k == "donate":
            return self.g_donate()
        if k == "lp_burn":
            return self.g_lp(True)
        if k == "lp_transfer":
            return self.g_lp(False)
        if k == "withdraw_via_token":
            return self.g_withdraw_via_token()
        if k == "freeze_token":
            return self.g_freeze_token()
        if k == "unauth":
            return self.g_unauth()
        if k == "transfer":
            return self.g_transfer()
        if k == "add_decimals":
            return self.g_add_decimals()
        if k == "owner_admin":
            return self.g_owner_admin()
        return self.g_swap()

    def seed_liquidity(self):
        """Initial provisions (as ordinary monitored operations)."""
        ops = []
        for p in self.w.pairs:
            if self.rng.random() < 0.9:
                ops.append(p)
        return ops
