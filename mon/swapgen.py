"""Generators of (x, y, a, c) for compute_swap: constructive boundary-residue families that land
exactly on the rounding edges of each truncating division, plus magnitude-bucketed random."""
from math import gcd

from . import gen
from .core import D, M128, U128, U256

RESIDUE_KINDS = ["zero", "one", "win_lo", "win_mid", "win_hi", "edge", "edge_plus", "far"]


def residue_case(rng):
    """x*y mod (x+a) steered onto the edges of floor(x*y*D/(x+a)): returns (x,y,a,tag) or None."""
    sbits = rng.randrange(61, 129)
    s = rng.getrandbits(sbits) | (1 << (sbits - 1))
    if s <= D:
        s += D
    if s > M128:
        s = M128
    for _ in range(8):
        a = rng.randrange(1, s)
        if gcd(a, s) == 1:
            break
    else:
        return None
    w = s // D  # window: 1 <= rho <= ceil(s/D)-1
    kind = rng.choice(RESIDUE_KINDS)
    hi = (s + D - 1) // D - 1
    if kind == "zero":
        rho = 0
    elif kind == "one":
        rho = 1
    elif kind == "win_lo":
        rho = min(max(1, hi), 2)
    elif kind == "win_mid":
        rho = rng.randrange(1, hi + 1) if hi >= 1 else 1
    elif kind == "win_hi":
        rho = max(1, hi)
    elif kind == "edge":
        rho = hi + 1
    elif kind == "edge_plus":
        rho = hi + 2
    else:
        rho = rng.randrange(0, s)
    rho %= s
    x = s - a
    base = (-rho * pow(a, -1, s)) % s
    # y = base + k*s, keep x*y*D < 2^256 most of the time
    ymax = M128
    if x > 0 and rng.random() < 0.9:
        ymax = min(M128, (U256 - 1) // (D * x))
    if base > ymax or base == 0 and ymax < s:
        return None
    kmax = (ymax - base) // s
    k = min(kmax, rng.getrandbits(rng.randrange(0, max(1, kmax.bit_length())))) if kmax > 0 else 0
    y = base + k * s
    if y == 0:
        y = s if s <= ymax else 0
    if y == 0:
        return None
    assert (x * y) % s == rho % s
    in_win = 0 < rho * D < s
    return x, y, a, "res_" + kind + ("_W" if in_win else "")


def tiny_product_case(rng):
    """x*y < x+a: the whole ask reserve is at stake (k = 0 window when x*y*D < x+a)."""
    x = rng.randrange(1, 1 << rng.randrange(1, 40))
    y = rng.randrange(1, 1 << rng.randrange(1, 40))
    lim = x * y * D
    a = lim - x + rng.choice([-2, -1, 0, 1, 2, rng.getrandbits(60)])
    a = max(1, min(a, M128))
    return x, y, a, "tinyprod"


def spread_case(rng):
    """(a*y) mod x steered onto {0,1,x-1} (the spread division)."""
    x = max(2, gen.amount128(rng))
    y = max(1, gen.amount128(rng))
    if gcd(y, x) != 1:
        y += 1
        if gcd(y, x) != 1:
            return None
    target = rng.choice([0, 1, x - 1])
    a = (target * pow(y, -1, x)) % x
    a += x * rng.getrandbits(rng.randrange(0, 30))
    if a == 0 or a > M128 or y > M128:
        return None
    return x, y, a, "spread_edge"


def random_case(rng):
    r = rng.random()
    if r < 0.03:
        # empty offer reserve (a pair that only ever received a one-sided transfer)
        return 0, gen.amount128(rng), max(1, gen.amount128(rng)), "x0"
    if r < 0.15:
        # x+a straddling 10^18
        x = rng.randrange(1, D)
        a = D - x + rng.choice([-1, 0, 1, 2])
        y = gen.amount128(rng)
        return x, y, max(1, a), "straddleD"
    if r < 0.3:
        # x*y*D straddling 2^256 (abort edge)
        x = gen.amount128(rng, rng.choice([64, 80, 98, 100, 120]))
        y = (U256 - 1) // (D * x) + rng.choice([-1, 0, 1, 2])
        y = max(1, min(y, M128))
        return x, y, gen.amount128(rng), "abort_edge"
    if r < 0.4:
        v = gen.u128(rng)[0] or 1
        return v, gen.u128(rng)[0] or 1, gen.u128(rng)[0], "u128mix"
    sb = rng.choice([8, 16, 24, 32, 40, 50, 60, 64, 70, 80, 90, 98])
    x = gen.amount128(rng, sb + rng.randrange(-6, 7) if sb > 8 else sb)
    y = gen.amount128(rng, max(1, sb + rng.randrange(-30, 31)))
    r2 = rng.random()
    if r2 < 0.5:
        a = max(1, int(x * 2 ** rng.uniform(-20, 2)))
    elif r2 < 0.7:
        a = gen.amount128(rng)
    elif r2 < 0.8:
        a = rng.choice([0, 1, 2])
    else:
        a = max(1, x + rng.choice([-1, 0, 1]))
    return x, y, min(a, M128), "rand%d" % sb


def case(rng):
    r = rng.random()
    c = None
    if r < 0.38:
        c = residue_case(rng)
    elif r < 0.46:
        c = tiny_product_case(rng)
    elif r < 0.56:
        c = spread_case(rng)
    if c is None:
        c = random_case(rng)
    return c


def rate_for(rng, x, y, a):
    """commission rate; sometimes steered so that gross*c lands on an integer edge."""
    r = rng.random()
    if r < 0.2 and x + a > 0:
        gross = y * a // (x + a)
        if gross > 0 and gcd(gross, D) == 1:
            t = rng.choice([0, 1, D - 1])
            return (t * pow(gross, -1, D)) % D
    return gen.rate(rng)
