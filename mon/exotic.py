"""Exotic-pair probe: a pair whose native denom is spelled exactly like the address of its own cw20 token
(legal: a denom is just a string). Identifiers then coincide across asset kinds, and any code that tells assets apart by
their printed name is confused. The pair is kept OUT of world.pairs (the generic monitors never see it); this probe drives
it directly and judges C06 / C12 on it from the ledger, the pair's Simulation and the swap attributes."""
from . import monitors
from .core import D
from .world import Pair, ainfo, attr_events


def probe(world, gen_, acc, which):
    """returns nothing; records evaluations / violations in acc. which in {"C06", "C12", "C13"}"""
    w, rng = world, gen_.rng
    tok = w.tokens[0]
    denom = tok[1]                       # the native denom spelled like the token address
    if denom not in w.addr_denoms:
        return
    nat = ("n", denom)
    key_n, key_t = w.denom_key(denom), tok[1]
    # register the denom and create the pair (either order), seed it with liquidity
    r = w.x_bank("owner", w.factory, [[denom, "1"]])
    r = w.x("owner", w.factory, {"add_native_token_decimals": {"denom": denom, "decimals": 6}})
    if r["r"] != "ok":
        acc.count("exotic_setup_failed")
        return
    order = (nat, tok) if rng.random() < 0.5 else (tok, nat)
    rate = rng.choice([0, 3 * 10 ** 15, 3 * 10 ** 16])
    save = list(w.pairs)
    r, p = w.create_pair(order[0], order[1], rate, ["lp1"], [0, 0], must=False)
    w.pairs = save                      # keep it out of the generic world
    if r["r"] != "ok" or p is None:
        acc.count("exotic_setup_failed")
        return
    w.decimals[denom] = 6
    w.extra_accounts = [a for a in w.extra_accounts if a not in (p.addr, p.lp)] + [p.addr, p.lp]
    w.retrack()
    amt = rng.choice([10 ** 6, 10 ** 9, 1 << 40])
    w.x("lp1", tok[1], {"increase_allowance": {"spender": p.addr, "amount": str(1 << 126)}})
    msg = {"provide_liquidity": {"assets": [{"info": ainfo(a), "amount": str(amt)} for a in order], "slippage_tolerance": None, "receiver": None}}
    r = w.x("lp1", p.addr, msg, funds=[[denom, str(amt)]])
    if r["r"] != "ok":
        acc.count("exotic_setup_failed")
        return
    acc.count("exotic_pairs")

    def reserves():
        led = w.ledger
        return {nat: led.bal.get((p.addr, key_n), 0), tok: led.bal.get((p.addr, key_t), 0)}

    if which == "C13":
        # skew the pool first (a quote that mixes up the two sides only shows on asymmetric reserves)
        w.x("trader1", p.addr, {"swap": {"offer_asset": {"info": ainfo(nat), "amount": str(amt // 2)}, "belief_price": None,
                                         "max_spread": None, "to": None}}, funds=[[denom, str(amt // 2)]])
        for _ in range(6):
            w.retrack()
            offer = rng.choice(order)
            ask = tok if offer == nat else nat
            k_ask = key_n if ask == nat else key_t
            res = reserves()
            a = max(1, res[offer] // rng.choice([3, 10, 50, 1000]))
            ops = w.route_ops_json([(offer, ask)])
            sim = w.q(w.router, {"simulate_swap_operations": {"offer_amount": str(a), "operations": ops}})
            inner = {"execute_swap_operations": {"operations": ops, "minimum_receive": None, "to": "recv"}}
            pre_rcv = w.ledger.bal.get(("recv", k_ask), 0)
            if any(w.ledger.bal.get((w.router, k_), 0) != 0 for k_ in (key_n, key_t)):
                # C13 speaks about routes executed while the router holds none of the route's assets
                acc.count("exotic_router_not_clean")
                continue
            if offer == nat:
                r = w.x("trader1", w.router, inner, funds=[[denom, str(a)]])
            else:
                from .world import b64
                r = w.x("trader1", tok[1], {"send": {"contract": w.router, "amount": str(a), "msg": b64(inner)}})
            w.retrack()
            acc.ev()
            acc.cls("exotic", which, "offer_" + offer[0], "pos%d" % order.index(offer), r["r"], sim["r"])
            case = {"kind": "exotic", "world_key": list(w.key), "pair": p.addr, "order": [o[0] for o in order], "offer": offer[0],
                    "amount": str(a), "reserves": [str(res[offer]), str(res[ask])], "result": r["r"]}
            if r["r"] != "ok":
                acc.count("exotic_swaps_failed")
                continue
            acc.count("exotic_swaps_ok")
            got = w.ledger.bal.get(("recv", k_ask), 0) - pre_rcv
            probs = []
            if sim["r"] != "ok":
                probs.append("route executed but the router's simulation of it failed")
            elif got != int(sim["v"]["amount"]):
                probs.append("recipient got %d but the router quoted %s" % (got, sim["v"]["amount"]))
            for k_ in (key_n, key_t):
                if w.ledger.bal.get((w.router, k_), 0) != 0:
                    probs.append("router keeps %d of %s" % (w.ledger.bal.get((w.router, k_), 0), k_))
            if probs:
                acc.violation("one-hop route on a pair whose native denom is spelled like its cw20 (offer %s): %s"
                              % (offer[0], "; ".join(probs)), case)
        w.retrack()
        return

    for _ in range(6):
        w.retrack()
        offer = rng.choice(order)
        ask = tok if offer == nat else nat
        res = reserves()
        x, y = res[offer], res[ask]
        a = max(1, x // rng.choice([3, 10, 50, 1000]))
        actor = "trader1"
        sim = w.q(*w.q_sim(p, offer, a))
        if offer == nat:
            before = (w.ledger.bal.get((actor, key_t), 0), )
            r = w.x(actor, p.addr, {"swap": {"offer_asset": {"info": ainfo(nat), "amount": str(a)}, "belief_price": None, "max_spread": None, "to": None}},
                    funds=[[denom, str(a)]])
        else:
            from .world import b64
            hook = b64({"swap": {"offer_asset": {"info": ainfo(tok), "amount": str(a)}, "belief_price": None, "max_spread": None, "to": None}})
            r = w.x(actor, tok[1], {"send": {"contract": p.addr, "amount": str(a), "msg": hook}})
        pre_actor_ask = w.ledger.bal.get((actor, key_n if ask == nat else key_t), 0)
        w.retrack()
        post = reserves()
        post_actor_ask = w.ledger.bal.get((actor, key_n if ask == nat else key_t), 0)
        acc.ev()
        acc.cls("exotic", which, "offer_" + offer[0], "pos%d" % order.index(offer), r["r"], sim["r"])
        case = {"kind": "exotic", "world_key": list(w.key), "pair": p.addr, "order": [o[0] for o in order], "offer": offer[0],
                "amount": str(a), "reserves": [str(x), str(y)], "result": r["r"]}
        if r["r"] != "ok":
            acc.count("exotic_swaps_failed")
            continue
        acc.count("exotic_swaps_ok")
        evs = [e for e in attr_events(r) if e.get("action") == "swap" and e.get("_contract_addr") == p.addr]
        if len(evs) != 1:
            acc.violation("exotic pair: no single swap event", case)
            continue
        n, sp, cm = int(evs[0]["return_amount"]), int(evs[0]["spread_amount"]), int(evs[0]["commission_amount"])
        if which == "C06":
            probs = monitors.band_problems(x, y, a, rate, n, sp, cm)
            if post[ask] - y != -n:
                probs.append("ask reserve changed by %d, not by -return (%d)" % (post[ask] - y, n))
            if post_actor_ask - pre_actor_ask != n:
                probs.append("the trader received %d of the ask asset, reported return %d" % (post_actor_ask - pre_actor_ask, n))
            if probs:
                acc.violation("swap on a pair whose native denom is spelled like its cw20 (offer %s, x=%d y=%d a=%d): %s"
                              % (offer[0], x, y, a, "; ".join(probs[:3])), case)
        else:
            if sim["r"] != "ok":
                acc.violation("exotic pair: swap succeeded but its simulation failed", case)
                continue
            q = (int(sim["v"]["return_amount"]), int(sim["v"]["spread_amount"]), int(sim["v"]["commission_amount"]))
            probs = []
            if q != (n, sp, cm):
                probs.append("executed %s but simulated %s" % ((n, sp, cm), q))
            if post_actor_ask - pre_actor_ask != q[0]:
                probs.append("the trader received %d of the ask asset, simulation said %d" % (post_actor_ask - pre_actor_ask, q[0]))
            if probs:
                acc.violation("quote/execution mismatch on a pair whose native denom is spelled like its cw20 (offer %s): %s"
                              % (offer[0], "; ".join(probs)), case)
    w.retrack()
