"""Common machinery: server driver, shard runner, verdicts, evidence, replays.

Verdicts are three-valued (DESIGN.md §1):
  exit 0  held on everything observed (coverage floors met, canary fired)
  exit 1  VIOLATION property=<id> replay=<path>
  exit 2  INCONCLUSIVE property=<id> reason=...   (never a VIOLATION line)
"""
import hashlib
import json
import multiprocessing as mp
import os
import random
import subprocess
import sys
import time
import traceback

VERIF = os.path.dirname(os.path.dirname(os.path.abspath(__file__)))
HARNESS = os.path.join(VERIF, "harness")
SRV_BIN = os.path.join(HARNESS, "target", "release", "halosrv")
EVIDENCE_DIR = os.environ.get("VERIF_EVIDENCE_DIR") or os.path.join(VERIF, "evidence")
REPLAY_DIR = os.environ.get("VERIF_REPLAY_DIR") or os.path.join(VERIF, "replays")
KNOWN_FILE = os.path.join(VERIF, "known_findings.json")
NSHARDS = int(os.environ.get("VERIF_SHARDS", "16"))

D = 10 ** 18
U64 = 1 << 64
U128 = 1 << 128
U256 = 1 << 256
M128 = U128 - 1
M256 = U256 - 1


ONLY_WORLD = None   # set by replay: only this world index of a shard is regenerated


def skip_world(wi):
    return ONLY_WORLD is not None and wi != ONLY_WORLD


class Inconclusive(Exception):
    pass


class HarnessFault(Exception):
    """The harness/server misbehaved (never a verdict about the code under test)."""


def to_limbs(v):
    return [v & (U64 - 1), (v >> 64) & (U64 - 1), (v >> 128) & (U64 - 1), (v >> 192) & (U64 - 1)]


def from_limbs(l):
    return l[0] | (l[1] << 64) | (l[2] << 128) | (l[3] << 192)


def sub_rng(*key):
    h = hashlib.sha256(repr(key).encode()).digest()
    return random.Random(int.from_bytes(h[:16], "big"))


# ---------------------------------------------------------------------------
# server driver


class Server:
    def __init__(self, binary=None, wrapper=None, log=True):
        cmd = [binary or SRV_BIN]
        if wrapper:
            cmd = list(wrapper) + cmd
        self.p = subprocess.Popen(cmd, stdin=subprocess.PIPE, stdout=subprocess.PIPE,
                                  stderr=subprocess.DEVNULL, bufsize=1 << 16)
        self.log = [] if log else None
        self.nreq = 0

    def reset_log(self):
        if self.log is not None:
            self.log = []

    def send(self, obj):
        """obj: dict (one request) or list (batch). Returns the decoded response."""
        line = json.dumps(obj, separators=(",", ":"))
        if self.log is not None:
            self.log.append(line)
        try:
            self.p.stdin.write(line.encode() + b"\n")
            self.p.stdin.flush()
            out = self.p.stdout.readline()
        except (BrokenPipeError, OSError) as e:
            raise HarnessFault("server pipe broke: %r" % (e,))
        if not out:
            raise HarnessFault("server died (exit=%r) on request %s" % (self.p.poll(), line[:300]))
        self.nreq += len(obj) if isinstance(obj, list) else 1
        return json.loads(out)

    def call(self, f, a):
        return self.send({"op": "call", "f": f, "a": a})

    def calls(self, reqs):
        """reqs: list of (f, a). Batched in chunks."""
        res = []
        for i in range(0, len(reqs), 400):
            chunk = [{"op": "call", "f": f, "a": a} for f, a in reqs[i:i + 400]]
            res.extend(self.send(chunk))
        return res

    def close(self):
        try:
            self.p.stdin.close()
            self.p.wait(timeout=5)
        except Exception:
            try:
                self.p.kill()
            except Exception:
                pass


# ---------------------------------------------------------------------------
# shard result accumulator


class Acc:
    """Everything a shard observed. Merged across shards."""

    def __init__(self):
        self.evaluations = 0
        self.classes = {}          # class tuple(str) -> count
        self.counters = {}         # free-form named counters
        self.samples = []          # a few actual cases
        self.violations = []       # dicts {what, case}
        self.known = {}            # finding id -> count
        self.known_samples = {}    # finding id -> one sample
        self.faults = []           # harness faults (=> inconclusive)
        self.max_samples = 6

    def ev(self, n=1):
        self.evaluations += n

    def cls(self, *key):
        k = "|".join(str(x) for x in key)
        self.classes[k] = self.classes.get(k, 0) + 1

    def count(self, name, n=1):
        self.counters[name] = self.counters.get(name, 0) + n

    def sample(self, case, force=False):
        if force or len(self.samples) < self.max_samples:
            self.samples.append(case)

    def violation(self, what, case):
        if len(self.violations) < 20:
            self.violations.append({"what": what, "case": case})
        self.count("violations_total")

    def known_hit(self, fid, case):
        self.known[fid] = self.known.get(fid, 0) + 1
        self.known_samples.setdefault(fid, case)

    def merge(self, o):
        self.evaluations += o.evaluations
        for k, v in o.classes.items():
            self.classes[k] = self.classes.get(k, 0) + v
        for k, v in o.counters.items():
            self.counters[k] = self.counters.get(k, 0) + v
        for s_ in o.samples:
            if len(self.samples) < 12:
                self.samples.append(s_)
        self.violations.extend(o.violations)
        for k, v in o.known.items():
            self.known[k] = self.known.get(k, 0) + v
        for k, v in o.known_samples.items():
            self.known_samples.setdefault(k, v)
        self.faults.extend(o.faults)


# ---------------------------------------------------------------------------
# build


FN_GROUPS = ["fn_formulas", "fn_guards", "fn_asset", "fn_factory", "fn_router"]
DROPPED_FILE = os.path.join(HARNESS, "target", "DROPPED_FN_GROUPS")


def _cargo_build(features):
    env = dict(os.environ)
    env["CARGO_NET_OFFLINE"] = "true"
    env.pop("RUSTFLAGS", None)
    cmd = ["cargo", "build", "--offline", "--release"]
    if features is not None:
        cmd += ["--no-default-features", "--features", ",".join(features) if features else ""]
        if not features:
            cmd = cmd[:-2]
    return subprocess.run(cmd, cwd=HARNESS, env=env, stdout=subprocess.PIPE, stderr=subprocess.STDOUT, text=True)


def build_harness(profile="release"):
    """Rebuild halosrv against /repo's current working tree. Failure => inconclusive.
    If the full adapter does not compile (a helper function in /repo changed its signature), the groups of direct helper
    calls are dropped one by one until it does; the dropped groups are recorded and the function-level legs that need
    them report themselves as skipped, while the system-level legs (contract entry points only) still run."""
    t0 = time.time()
    r = _cargo_build(None)
    if r.returncode != 0:
        r = _cargo_build(None)
    dropped = []
    if r.returncode != 0:
        import itertools
        ok = False
        for k in (1, 2, 3, 4, 5):
            for drop in itertools.combinations(FN_GROUPS, k):
                keep = [g for g in FN_GROUPS if g not in drop]
                r2 = _cargo_build(keep)
                if r2.returncode == 0:
                    dropped, ok = list(drop), True
                    break
            if ok:
                break
        if not ok:
            raise Inconclusive("harness build failed: " + r.stdout[-1500:].replace("\n", " | "))
    os.makedirs(os.path.dirname(DROPPED_FILE), exist_ok=True)
    with open(DROPPED_FILE, "w") as f:
        f.write("\n".join(dropped))
    return time.time() - t0


def dropped_groups():
    try:
        return [l for l in open(DROPPED_FILE).read().split() if l]
    except OSError:
        return []


# ---------------------------------------------------------------------------
# known findings


def load_known():
    with open(KNOWN_FILE) as f:
        doc = json.load(f)
    return doc["findings"]


def open_known_ids(prop):
    return {f["id"]: f for f in load_known() if f["status"] == "open" and prop in f["properties"]}


# ---------------------------------------------------------------------------
# running


def _shard_entry(args):
    modname, prop, tier, seed, shard, nshards, extra = args
    import importlib
    acc = Acc()
    try:
        mod = importlib.import_module(modname)
        mod.run_shard(acc, prop=prop, tier=tier, seed=seed, shard=shard, nshards=nshards, **extra)
    except HarnessFault as e:
        acc.faults.append("shard %d: %s" % (shard, e))
    except Exception:
        acc.faults.append("shard %d crashed: %s" % (shard, traceback.format_exc()[-1500:]))
    return acc


def _margins():
    from .props import _w
    return {k: {"observed": o, "required": n} for k, (o, n) in sorted(_w.MARGINS.items())}


def run_check(prop, modname, tier, seed, floors_fn, rule, level_assumptions, extra=None,
              post_fn=None, nshards=None):
    """Generic driver: build, fan out, merge, decide, write evidence, print verdict, exit."""
    t0 = time.time()
    nshards = nshards or NSHARDS
    extra = extra or {}
    reason = None
    acc = Acc()
    try:
        build_s = build_harness()
        ctx = mp.get_context("fork")
        with ctx.Pool(min(nshards, os.cpu_count() or 1)) as pool:
            parts = pool.map(_shard_entry,
                             [(modname, prop, tier, seed, i, nshards, extra) for i in range(nshards)],
                             chunksize=1)
        for p in parts:
            acc.merge(p)
        if post_fn:
            post_fn(acc, tier, seed)
    except Inconclusive as e:
        reason = str(e)
        build_s = 0.0
    if reason is None and acc.faults:
        reason = "harness fault: " + acc.faults[0][:600]

    floor_msgs = []
    if reason is None:
        floor_msgs = floors_fn(acc, tier)

    # verdict
    known_cfg = open_known_ids(prop)
    new_viol = acc.violations
    wall = time.time() - t0
    coverage = {
        "evaluations": acc.evaluations,
        "distinct_nontrivial": len(acc.classes),
        "rule": rule,
        "samples": acc.samples[:12] or ["<none>"],
        "class_histogram_top": dict(sorted(acc.classes.items(), key=lambda kv: -kv[1])[:60]),
        "counters": dict(sorted(acc.counters.items())),
        "known_finding_instances": acc.known,
        "known_finding_samples": acc.known_samples,
        "shards": nshards,
        "floors_missed": floor_msgs,
        "count_floors_observed_vs_required": _margins(),
        "harness_faults": acc.faults[:5],
        "build_s": round(build_s, 1),
        "adapter_helper_groups_dropped": dropped_groups(),
    }
    status = "held"
    if new_viol:
        status = "violated"
    elif reason or floor_msgs:
        status = "inconclusive"
    coverage["verdict"] = status
    if reason:
        coverage["inconclusive_reason"] = reason
    ev = {
        "property_id": prop,
        "tier": tier,
        "seed": seed,
        "level": "exploration",
        "coverage": coverage,
        "assumptions": level_assumptions,
        "wall_s": round(wall, 2),
        "violations": len(new_viol),
    }
    if ev["coverage"]["evaluations"] < 1:
        ev["coverage"]["evaluations"] = 0
    os.makedirs(EVIDENCE_DIR, exist_ok=True)
    tmp = os.path.join(EVIDENCE_DIR, ".%s.%d.tmp" % (prop, os.getpid()))
    with open(tmp, "w") as f:
        json.dump(ev, f, indent=1, default=str)
    os.replace(tmp, os.path.join(EVIDENCE_DIR, prop + ".json"))

    print("%s tier=%s seed=%d evaluations=%d distinct_classes=%d wall=%.1fs build=%.1fs"
          % (prop, tier, seed, acc.evaluations, len(acc.classes), wall, build_s))
    for k, v in sorted(acc.counters.items()):
        print("  %-46s %d" % (k, v))
    tight = ["%s %d/%d" % (k, v["observed"], v["required"]) for k, v in _margins().items() if v["observed"] < 1.5 * v["required"]]
    if tight:
        print("  floors within 1.5x: " + ", ".join(tight))
    if dropped_groups():
        print("  NOTE: the adapter could only be built without the direct helper calls %s (their signatures changed in /repo); "
              "function-level legs using them were skipped" % dropped_groups())
    for fid, n in sorted(acc.known.items()):
        f = known_cfg.get(fid)
        what = f["what"] if f else fid
        print("KNOWN-FINDING: property=%s %s [finding=%s instances=%d]" % (prop, what, fid, n))
    if new_viol:
        os.makedirs(REPLAY_DIR, exist_ok=True)
        path = os.path.join(REPLAY_DIR, "%s-%d-%s.json" % (prop, seed, tier))
        with open(path, "w") as f:
            json.dump({"property": prop, "tier": tier, "seed": seed, "module": modname,
                       "violations": new_viol}, f, indent=1, default=str)
        for v in new_viol[:5]:
            print("  violation: %s" % (v["what"][:500],))
        print("VIOLATION property=%s replay=%s" % (prop, path))
        sys.exit(1)
    if status == "inconclusive":
        print("INCONCLUSIVE property=%s reason=%s" % (prop, (reason or "; ".join(floor_msgs))[:900]))
        sys.exit(2)
    print("HELD property=%s (on everything observed)" % prop)
    sys.exit(0)
