"""C02 — swap settlement moves exactly the declared asset and amounts.

Every swap attempt (well-formed and the whole malformed cross product: asset delivered x asset named x amount named
x funds x entry) on every pair kind after random prior histories; ledger equations on every success."""
from .. import monitors
from ..core import run_check
from . import _w

PROP = "C02"
WEIGHTS = {"swap": 30, "swap_malformed": 40, "swap_window": 3, "provide": 8, "provide_first": 3, "withdraw": 5,
           "route": 4, "donate": 4, "lp_burn": 0, "lp_transfer": 0, "unauth": 1, "provide_malformed": 0,
           "route_bad": 0, "intent": 3, "add_decimals": 0, "transfer": 0}


def factory(w, a):
    return [monitors.C02(w, a)]


def _ok_swap(st):
    return st.op["kind"] == "swap" and st.ok and st.op["sem"].get("well_formed")


def corrupt_receiver(world, st):
    if not _ok_swap(st):
        return None
    sem = st.op["sem"]
    other = sem["pair"].other(sem["named"])
    k = (sem["to"] or st.op["actor"], other[1])
    st.post.bal[k] = st.post.bal.get(k, 0) + 1
    return st


def corrupt_wrong_asset(world, st):
    """pretend the trader delivered the other asset while being priced for the named one"""
    if not _ok_swap(st) or st.op["sem"]["entry"] != "hook":
        return None
    sem = dict(st.op["sem"])
    p = sem["pair"]
    other = p.other(sem["named"])
    if other[0] != "t":
        return None
    sem["delivered"] = other
    st.op = dict(st.op, sem=sem)
    return st


def corrupt_pair_credit(world, st):
    if not _ok_swap(st):
        return None
    sem = st.op["sem"]
    k = (sem["pair"].addr, sem["named"][1])
    st.post.bal[k] -= 1
    return st


CORR = {"receiver_plus_one": corrupt_receiver, "delivered_other_token": corrupt_wrong_asset,
        "pair_credit_minus_one": corrupt_pair_credit}


def cell_walk(world, gen_):
    """the whole swap cross product on one funded pair (preferring cw20/cw20 and native pairs alternately)"""
    funded = [p for p in world.pairs if p.supply(world.ledger) > 0 and min(p.reserves(world.ledger)) > 10]
    if not funded:
        return
    p = gen_.rng.choice(funded)
    for c in gen_.walk_swap_cells(p):
        yield c


def run_shard(acc, prop, tier, seed, shard, nshards, **kw):
    _w.shard(acc, PROP, tier, seed, shard, nshards, factory, WEIGHTS, (12, (120, 220)), (300, (120, 300)), CORR,
             post_hook=cell_walk, post_every=(3, 2))


def floors(acc, tier):
    msgs = _w.canary_floor(acc, CORR)
    _w.need(acc, msgs, "swaps_succeeded_wellformed", 3000)
    _w.need(acc, msgs, "cells_attempted", 10000)
    _w.need(acc, msgs, "worlds_with_exhaustive_walk", 32)
    # every pair kind must have seen both entries and malformed cells
    for pk in ("nn", "nt", "tn", "tt"):
        n_cells = len(set(k.split("|")[1] for k in acc.classes if k.startswith(pk + "|") and "wellformed" not in k))
        if n_cells < 12:
            msgs.append("pair kind %s saw only %d malformed cells" % (pk, n_cells))
        if not any(k.startswith(pk + "|wellformed") and k.endswith("|ok") for k in acc.classes):
            msgs.append("no successful well-formed swap on %s" % pk)
    return msgs


RULE = ("swap attempts on all pair orientations after seeded prior histories: well-formed (direct native, cw20 hook) and "
        "the malformed cross product (asset delivered in {named, other pair token, foreign token, rogue token, nothing} x "
        "asset named in {asset0, asset1, foreign, rogue} x amount named in {=,<,>,0} x funds in {exact, less, more, absent, "
        "extra coin, other coin only} x entry in {Swap, hook}). Class = (pair orientation, cell, outcome); "
        "distinct_nontrivial counts distinct classes. On every success the full settlement equations are checked on the ledger. "
        "In every third world (quick; every second in thorough) the complete cross product is additionally ENUMERATED on one funded pair in the "
        "state the history ended in (worlds_with_exhaustive_walk).")


def main(tier, seed):
    run_check(PROP, "mon.props.c02", tier, seed, floors, RULE, _w.ASSUME_WORLD)
