"""C04 — withdrawal pays the pro-rata share: never more, at most dust less; takes nothing from anyone else."""
from .. import monitors
from ..core import run_check
from . import _w

PROP = "C04"
WEIGHTS = {"swap": 18, "swap_window": 2, "swap_malformed": 1, "provide": 16, "provide_first": 4, "withdraw": 36,
           "route": 4, "donate": 10, "lp_burn": 6, "lp_transfer": 4, "unauth": 0, "provide_malformed": 0,
           "route_bad": 0, "intent": 0, "add_decimals": 0, "transfer": 0, "withdraw_via_token": 5, "freeze_token": 3}


def factory(w, a):
    return [monitors.C04(w, a)]


def pre_hook(world, gen_, mons):
    """now and then a coin that sorts after every traded denom lands on a native/native pair (a reserve read that takes
    'the other coin' of the pair's balance list for asset 1 would pick it up)"""
    orig_next = gen_.next

    def nxt():
        r_ = gen_.rng.random()
        if 0.03 <= r_ < 0.06:
            # a never-funded pair seeded with EQUAL amounts (supply == both reserves) by one actor who then leaves with
            # everything at once: the exit where the exact share stops one unit short of each reserve
            led = world.ledger
            empt = [p for p in world.pairs if p.supply(led) == 0 and not any(p.reserves(led))]
            if empt:
                p = gen_.rng.choice(empt)
                actor = gen_.rng.choice(p.whitelist) if p.whitelist else "lp1"
                d = max(p.mins[0], p.mins[1], gen_.rng.choice([1000, 2000, 10 ** 6, 12345678, 3 * 10 ** 9 + 1]))
                if all(led.get(actor, a[1]) >= d for a in p.assets):
                    gen_.count += 1
                    gen_.pending.append({"kind": "withdraw_all", "actor": actor, "pair": p, "due": gen_.count + 1, "born": gen_.count})
                    return world.op_provide(actor, p, [d, d]), [(p.addr, {"pool": {}})]
        if r_ < 0.03:
            nn = [p for p in world.pairs if p.kind() == "nn" and p.supply(world.ledger) > 0]
            if nn:
                p = gen_.rng.choice(nn)
                amt = gen_.rng.choice([1, 10 ** 6, max(1, p.reserves(world.ledger)[1] // 2), p.reserves(world.ledger)[1] * 3 + 1])
                gen_.count += 1
                return world.op_donate("attacker", p.addr, ("n", world.tail_denom), amt), []
        return orig_next()
    gen_.next = nxt


def _ok(st):
    return st.op["kind"] == "withdraw" and st.ok


def corrupt_overpay(world, st):
    if not _ok(st):
        return None
    p = st.op["sem"]["pair"]
    st.post.bal[(st.op["actor"], p.assets[0][1])] += 1
    st.post.bal[(p.addr, p.assets[0][1])] -= 1
    # make sure it is an over-payment relative to pro-rata: only exact when remainder small; use +S-scale bump
    r0 = p.reserves(st.pre)[0]
    S = p.supply(st.pre)
    a = st.op["sem"]["amount"]
    x = st.post.bal[(st.op["actor"], p.assets[0][1])] - st.pre.bal.get((st.op["actor"], p.assets[0][1]), 0)
    if x * S <= r0 * a:
        return None
    return st


def corrupt_third_party(world, st):
    if not _ok(st):
        return None
    p = st.op["sem"]["pair"]
    k = ("by1", p.assets[1][1])
    st.post.bal[k] = st.post.bal.get(k, 0) - 1
    return st


def corrupt_burn(world, st):
    if not _ok(st):
        return None
    p = st.op["sem"]["pair"]
    st.post.supply[p.lp] += 1
    return st


CORR = {"overpay_one": corrupt_overpay, "third_party_debited": corrupt_third_party, "burn_one_less": corrupt_burn}


def run_shard(acc, prop, tier, seed, shard, nshards, **kw):
    _w.shard(acc, PROP, tier, seed, shard, nshards, factory, WEIGHTS, (12, (120, 220)), (220, (120, 300)), CORR, pre_hook=pre_hook)


def floors(acc, tier):
    msgs = _w.canary_floor(acc, CORR)
    _w.need(acc, msgs, "withdraw_ok", 3000)
    _w.need(acc, msgs, "withdraw_via_other_token_err", 150)
    _w.need(acc, msgs, "token_freezes_ok", 20)
    _w.need(acc, msgs, "withdrawals_while_a_pool_token_is_frozen_err", 60)
    if not any(k.startswith("via_token|") and k.endswith("|parked") for k in acc.classes):
        msgs.append("no withdraw hook through another token while the pair held parked LP")
    rel = set(k.split("|")[5] for k in acc.classes if not k.startswith(("edge|", "via_token|", "freeze_token|")))
    # (value per share never decreases, so S <= sqrt(r0*r1): S above both reserves is unreachable)
    for want in ("Svs_r:lt", "Svs_r:mid", "S<<rmax", "S>>rmin"):
        if not any(want in r for r in rel):
            msgs.append("supply/reserve relation %s never seen (seen %s)" % (want, sorted(rel)))
    edges = set(k for k in acc.classes if k.startswith("edge|"))
    if len(edges) < 3:
        msgs.append("rounding edge classes seen: %s" % sorted(edges))
    return msgs


RULE = ("successful withdrawals (LP send hook) in seeded histories: burn amounts 1, all, random and amounts constructed so "
        "that a*1e18 mod S sits on its edges; reserves inflated by donations, supplies shrunk by direct burns (S<<r and S>>r); never-funded pairs seeded with equal amounts and emptied by their sole holder in the next step. "
        "Class = (pair orientation, outcome, burn/supply relation, supply bucket, reserve bucket, supply-vs-reserve relation) "
        "and pro-rata remainder class; distinct_nontrivial counts distinct classes. Full ledger delta must equal the withdrawal's own cells.")


def main(tier, seed):
    run_check(PROP, "mon.props.c04", tier, seed, floors, RULE, _w.ASSUME_WORLD)
