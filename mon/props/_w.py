"""Shared helpers for world-history checks."""
from ..wrun import run_worlds, canary_floor

ASSUME_WORLD = [
    "cw-multi-test 0.16.1 (the simulator the repository's own integration tests use) with cw20-base 1.0.0 stands in for the chain; honest tokens (no fee-on-transfer) that refuse zero-amount transfers; in 30% of the worlds one traded token is another implementation of the cw20 standard with its own storage layout",
    "inputs a real chain cannot produce are mostly not generated (duplicate or zero-amount coins in funds); a letter-case variant of an account name is the same account (the codec folds case); some simulator-only inputs are used as probes (digit-leading denoms, account names with blanks or of illegal length, one holding of 2^128-1 in C11)",
    "ledger = balances of every account incl. all contracts x every asset, every cw20 supply, bystander allowances, storage digest of every contract, snapshotted after every step",
    "contract panic = transaction abort (caught in the adapter; the simulator's transactional cache leaves state untouched)",
]


def shard(acc, prop, tier, seed, shard_i, nshards, factory, weights, quick, thorough, corruptions=None,
          world_kw=None, hist_kw=None, pre_hook=None, post_hook=None, post_every=(3, 1)):
    nw, steps = quick if tier == "quick" else thorough
    run_worlds(acc, prop, tier, seed, shard_i, nshards, factory, weights, nw, steps,
               world_kw=world_kw, hist_kw=hist_kw, pre_hook=pre_hook, corruptions=corruptions,
               post_hook=post_hook, post_every=post_every[0] if tier == "quick" else post_every[1])


MARGINS = {}


def need(acc, msgs, name, n):
    MARGINS[name] = (acc.counters.get(name, 0), n)
    if acc.counters.get(name, 0) < n:
        msgs.append("%s = %d < %d" % (name, acc.counters.get(name, 0), n))


def need_prefix(acc, msgs, prefix, n, suffix=""):
    tot = sum(v for k, v in acc.counters.items() if k.startswith(prefix) and k.endswith(suffix))
    MARGINS[prefix + "*" + suffix] = (tot, n)
    if tot < n:
        msgs.append("%s*%s = %d < %d" % (prefix, suffix, tot, n))
