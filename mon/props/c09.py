"""C09 — declared native amounts must equal the attached funds exactly.

Function level: assert_sent_native_token_balance over declared x attached in {less, equal, more, absent, zero} x extra coins
x asset kind. System level: the same grid through ProvideLiquidity, Swap and the cw20 hook naming a native asset."""
from .. import gen, monitors
from ..core import M128, Server, sub_rng, run_check
from . import _w

PROP = "C09"
WEIGHTS = {"swap": 14, "swap_window": 0, "swap_malformed": 34, "provide": 10, "provide_first": 4, "withdraw": 4,
           "route": 2, "donate": 3, "lp_burn": 0, "lp_transfer": 0, "unauth": 0, "provide_malformed": 34,
           "route_bad": 0, "intent": 0, "add_decimals": 0, "transfer": 0}
DENOMS = ["uaura", "uusd", "uaur", "uaura2", "ibc/27394fb092d2"]


def factory(w, a):
    return [monitors.C09(w, a)]


def corrupt_accept(world, st):
    """a rejected mismatch presented as accepted"""
    if st.ok or st.op["kind"] not in ("swap", "provide_malformed") or "Native token balance mismatch" not in st.res.get("e", ""):
        return None
    st.res = {"r": "ok", "v": {"events": []}}
    return st


def corrupt_fail_state(world, st):
    if st.ok or st.op["kind"] not in ("swap", "provide_malformed", "provide"):
        return None
    sem = st.op["sem"]
    if not monitors.C09.declared_natives(st.op):
        return None
    k = (sem["pair"].addr, world.natives[0][1])
    st.post.bal[k] = st.post.bal.get(k, 0) + 1
    return st


CORR = {"mismatch_accepted": corrupt_accept, "failed_call_kept_funds": corrupt_fail_state}


def fn_leg(acc, srv, rng, n):
    from ..core import dropped_groups
    if "fn_asset" in dropped_groups():
        acc.count("fn_leg_skipped_adapter_built_without_fn_asset")
        return
    cases = []
    for _ in range(n):
        kind = "native" if rng.random() < 0.85 else "token"
        dn = rng.choice(DENOMS)
        v = rng.choice([0, 1, gen.amount128(rng), gen.u128(rng)[0]])
        mode = rng.choice(["less", "equal", "equal", "more", "absent", "zero", "prefix_denom"])
        funds = {}
        if mode == "less" and v > 0:
            funds[dn] = v - rng.choice([1, v])
        elif mode == "equal":
            funds[dn] = v
        elif mode == "more":
            funds[dn] = min(M128, v + rng.choice([1, v + 1]))
        elif mode == "zero":
            funds[dn] = 0
        elif mode == "prefix_denom":
            funds[dn + "x"] = v
            funds[dn[:-1]] = v
        if rng.random() < 0.4:
            for d in rng.sample(DENOMS, rng.randrange(1, 3)):
                if d != dn and d not in funds:
                    funds[d] = rng.choice([1, v, gen.amount128(rng)])
        fl = [[d, str(a)] for d, a in funds.items()]
        rng.shuffle(fl)
        info = {"native": dn} if kind == "native" else {"token": "contract7"}
        cases.append((kind, dn, v, funds, mode, [info, str(v), fl]))
    for (kind, dn, v, funds, mode, a), resp in zip(cases, srv.calls([("assert_sent_native", c[5]) for c in cases])):
        acc.ev()
        att = funds.get(dn)
        rel = "absent" if att is None else ("eq" if att == v else ("less" if att < v else "more"))
        acc.cls("fn", kind, rel, "v0" if v == 0 else "v+", "extra" if len(funds) > (0 if att is None else 1) else "noextra", resp["r"])
        acc.count("fn_" + resp["r"])
        case = {"kind": "fn", "f": "assert_sent_native", "a": a, "observed": resp}
        if resp["r"] == "ok" and kind == "native" and (att or 0) != v:
            acc.violation("assert_sent_native_token_balance accepted declared %d %s with attached %r" % (v, dn, att), case)
        elif resp["r"] == "panic":
            acc.violation("assert_sent_native_token_balance panicked: %s" % resp.get("e"), case)
        elif resp["r"] == "err" and (kind == "token" or (att or 0) == v):
            acc.count("fn_spurious_reject")
        elif len(acc.samples) < 2:
            acc.sample(case)


def run_shard(acc, prop, tier, seed, shard, nshards, **kw):
    srv = Server(log=False)
    try:
        fn_leg(acc, srv, sub_rng(seed, PROP, tier, shard, "fn"), 10000 if tier == "quick" else 300000)
    finally:
        srv.close()
    from .c02 import cell_walk
    _w.shard(acc, PROP, tier, seed, shard, nshards, factory, WEIGHTS, (12, (120, 200)), (300, (120, 300)), CORR,
             post_hook=cell_walk, post_every=(3, 2))


def floors(acc, tier):
    msgs = _w.canary_floor(acc, CORR)
    _w.need(acc, msgs, "grid_cells_attempted", 8000)
    _w.need(acc, msgs, "mismatch_rejected", 1500)
    _w.need(acc, msgs, "succeeded", 1500)
    if acc.counters.get("fn_spurious_reject", 0):
        msgs.append("positive controls rejected at function level: %d" % acc.counters["fn_spurious_reject"])
    for entry in ("direct", "hook", "provide"):
        rels = set(k.split("|")[2] for k in acc.classes if k.startswith(entry + "|"))
        if entry != "hook" and not any("less" in r for r in rels) or not rels:
            msgs.append("entry %s: declared/attached relations seen %s" % (entry, sorted(rels)))
    return msgs


RULE = ("function: assert_sent_native_token_balance over declared x attached {less, equal, more, absent, zero} x extra/prefix-sharing "
        "denoms x asset kind; system: the same grid through ProvideLiquidity (one or two native assets), Swap and the cw20 hook naming "
        "a native asset, on all pair orientations. Class = (entry, pair orientation | kind, declared-vs-attached relation per named "
        "native asset, extra coins?, outcome). Success requires attached == declared for every named denom; failure requires an unchanged ledger.")


def main(tier, seed):
    run_check(PROP, "mon.props.c09", tier, seed, floors, RULE, _w.ASSUME_WORLD)
