"""C05 — provision mints a fair share and pulls exactly the declared deposits.

System level: every provision attempt in world histories (ledger deltas, LP supply, reserved unit, whitelist/minimums).
Function level: calculate_lp_token_amount_to_user with residue-steered d_i*S mod r_i on {0,1,r_i-1}, argmin on either side."""
from math import gcd, isqrt

from .. import gen, monitors
from ..core import M128, U128, Server, sub_rng, run_check
from . import _w

PROP = "C05"
WEIGHTS = {"swap": 18, "swap_window": 1, "swap_malformed": 1, "provide": 34, "provide_first": 12, "withdraw": 10,
           "route": 3, "donate": 8, "lp_burn": 3, "lp_transfer": 1, "unauth": 0, "provide_malformed": 8,
           "route_bad": 0, "intent": 2, "add_decimals": 0, "transfer": 0}


def factory(w, a):
    return [monitors.C05(w, a)]


def _ok(st, later=True):
    return st.op["kind"] == "provide" and st.ok and (st.op["sem"]["pair"].supply(st.pre) > 0) == later


def corrupt_mint_plus(world, st):
    if not _ok(st):
        return None
    p = st.op["sem"]["pair"]
    rcv = st.op["sem"]["receiver"] or st.op["actor"]
    r0, r1 = p.reserves(st.pre)
    S = p.supply(st.pre)
    d = st.op["sem"]["amounts"]
    m = st.post.get(rcv, p.lp) - st.pre.get(rcv, p.lp)
    bump = 1
    # bump enough to exceed min share
    while all((m + bump) * r <= di * S for r, di in ((r0, d[0]), (r1, d[1]))):
        bump *= 2
    st.post.bal[(rcv, p.lp)] += bump
    st.post.supply[p.lp] += bump
    return st


def corrupt_pull_less(world, st):
    if not _ok(st):
        return None
    p = st.op["sem"]["pair"]
    st.post.bal[(p.addr, p.assets[0][1])] -= 1
    st.post.bal[(st.op["actor"], p.assets[0][1])] += 1
    return st


def corrupt_reserved_unit(world, st):
    if not _ok(st, later=False):
        return None
    p = st.op["sem"]["pair"]
    rcv = st.op["sem"]["receiver"] or st.op["actor"]
    st.post.bal[(p.lp, p.lp)] -= 1
    st.post.bal[(rcv, p.lp)] += 1
    return st


CORR = {"mint_above_share": corrupt_mint_plus, "pull_one_less": corrupt_pull_less,
        "reserved_unit_to_receiver": corrupt_reserved_unit}


def expect_share(S, d0, d1, p0, p1, sender, wl, m0, m1):
    """(kind, exact): kind 'err' = must be refused; 'ok' = exact share, must be returned; 'abort_ok' = an abort is
    permitted (intermediate overflow) but a returned value must still be the exact share if that is representable."""
    if S == 0:
        if sender not in wl:
            return ("err", "whitelist")
        if d0 < m0 or d1 < m1:
            return ("err", "minimum")
        if d0 * d1 >= U128:
            return ("abort_ok", isqrt(d0 * d1))
        return ("ok", isqrt(d0 * d1))
    if p0 == 0 or p1 == 0:
        return ("abort_ok", None)
    a, b = d0 * S // p0, d1 * S // p1
    if a > M128 or b > M128:
        return ("abort_ok", min(a, b) if min(a, b) <= M128 else None)
    return ("ok", min(a, b))


def steer_dep(rng, S, r):
    """d with d*S mod r on {0,1,r-1}"""
    if r < 2 or gcd(S, r) != 1:
        return None
    t = rng.choice([0, 1, r - 1])
    d = (t * pow(S, -1, r)) % r + r * rng.getrandbits(rng.randrange(0, 24))
    return d if 0 < d <= M128 else None


def fn_case(rng):
    r = rng.random()
    wl = ["lp1", "lp2"][:rng.choice([0, 1, 2])]
    sender = rng.choice(["lp1", "lp2", "attacker"])
    if r < 0.25:
        d0, d1 = gen.amount128(rng), gen.amount128(rng)
        if rng.random() < 0.3:
            d1 = max(1, (U128 // max(1, d0)) + rng.choice([-1, 0, 1]))
            d1 = min(d1, M128)
        m0 = rng.choice([0, d0, d0 + 1, max(0, d0 - 1)])
        m1 = rng.choice([0, d1, d1 + 1, max(0, d1 - 1)])
        return (0, d0, d1, gen.u128(rng)[0], gen.u128(rng)[0], sender, wl, m0, m1), "first"
    S = gen.amount128(rng)
    p0, p1 = gen.amount128(rng), gen.amount128(rng)
    if r < 0.7:
        d0, d1 = steer_dep(rng, S, p0), steer_dep(rng, S, p1)
        if d0 and d1:
            if rng.random() < 0.5:
                # put the argmin on a chosen side by scaling the other deposit up
                if rng.random() < 0.5:
                    d0 = min(M128, d0 + p0 * rng.getrandbits(20))
                else:
                    d1 = min(M128, d1 + p1 * rng.getrandbits(20))
            return (S, d0, d1, p0, p1, sender, wl, 0, 0), "residue"
    if r < 0.78:
        return (S, gen.amount128(rng), gen.amount128(rng), rng.choice([0, p0]), rng.choice([0, p1]), sender, wl, 0, 0), "zero_reserve"
    d0 = gen.amount128(rng)
    d1 = max(0, min(M128, d0 * p1 // p0 + rng.choice([-1, 0, 1]))) if rng.random() < 0.5 else gen.amount128(rng)
    return (S, d0, d1, p0, p1, sender, wl, 0, 0), "rand"


def fn_leg(acc, srv, rng, n):
    from ..core import dropped_groups
    if "fn_formulas" in dropped_groups():
        acc.count("fn_leg_skipped_adapter_built_without_fn_formulas")
        return
    cases = [fn_case(rng) for _ in range(n)]
    reqs = [("lp_share", [str(c[0]), str(c[1]), str(c[2]), str(c[3]), str(c[4]), c[5], c[6], str(c[7]), str(c[8])])
            for c, _ in cases]
    for (c, tag), resp in zip(cases, srv.calls(reqs)):
        acc.ev()
        exp = expect_share(*c)
        got = resp["r"]
        acc.cls("fn", tag, exp[0], got, gen.bucket(c[0]), gen.bucket(max(c[1], c[2])))
        acc.count("fn_" + got)
        bad = None
        if exp[0] == "ok":
            if got != "ok":
                bad = "expected share %d, got %s %s" % (exp[1], got, resp.get("e", "")[:80])
            elif int(resp["v"]) != exp[1]:
                bad = "share %s != exact %d" % (resp["v"], exp[1])
        elif exp[0] == "err":
            if got == "ok":
                bad = "must be refused (%s) but returned %s" % (exp[1], resp["v"])
        elif got == "ok" and (exp[1] is None or int(resp["v"]) != exp[1]):
            bad = "returned %s where the exact share is %s" % (resp["v"], exp[1])
        case = {"kind": "fn", "f": "lp_share", "a": reqs[0][1] and [str(c[0]), str(c[1]), str(c[2]), str(c[3]), str(c[4]), c[5], c[6], str(c[7]), str(c[8])],
                "observed": resp, "family": tag}
        if bad:
            acc.violation("calculate_lp_token_amount_to_user(S=%d,d=(%d,%d),r=(%d,%d),sender=%s,wl=%s,min=(%d,%d)): %s"
                          % (c[0], c[1], c[2], c[3], c[4], c[5], c[6], c[7], c[8], bad), case)
        elif len(acc.samples) < 2:
            acc.sample(case)


def run_shard(acc, prop, tier, seed, shard, nshards, **kw):
    srv = Server(log=False)
    try:
        fn_leg(acc, srv, sub_rng(seed, PROP, tier, shard, "fn"), 20000 if tier == "quick" else 600000)
    finally:
        srv.close()
    _w.shard(acc, PROP, tier, seed, shard, nshards, factory, WEIGHTS, (12, (120, 220)), (220, (120, 300)), CORR)


def floors(acc, tier):
    msgs = _w.canary_floor(acc, CORR)
    _w.need(acc, msgs, "provide_ok_later", 3000)
    _w.need(acc, msgs, "provide_ok_first", 300)
    _w.need(acc, msgs, "provide_failed_first", 100)
    _w.need(acc, msgs, "fn_ok", 50000)
    for am in ("argmin0", "argmin1"):
        if not any(k.startswith("edge|") and k.endswith(am) for k in acc.classes):
            msgs.append("argmin side %s never seen" % am)
    wl = set(k.split("|")[5] for k in acc.classes if not k.startswith(("edge|", "fn|")))
    if not {"wl0", "wl1", "wl2"} <= wl:
        msgs.append("whitelist configurations seen: %s" % sorted(wl))
    return msgs


RULE = ("system: every provision attempt in seeded histories (balanced +-1, unbalanced, share-threshold, reversed asset order, "
        "other receiver, with/without tolerance, first provision by whitelisted/stranger/below minimum; whitelist sizes 0/1/2, "
        "minimums 0/1/1000; malformed funds); function: calculate_lp_token_amount_to_user with d_i*S mod r_i steered to {0,1,r_i-1}, "
        "argmin on either side, zero reserves, products at 2^128. Class = (pair orientation | fn family, first/later, outcome, "
        "supply and deposit buckets, whitelist size, receiver, kind) plus rounding-remainder x argmin classes.")


def main(tier, seed):
    run_check(PROP, "mon.props.c05", tier, seed, floors, RULE, _w.ASSUME_WORLD)
