"""C03 — LP share value r0*r1/S^2 never decreases over any history (every step of every history)."""
from .. import monitors
from ..core import run_check
from . import _w

PROP = "C03"
WEIGHTS = {"swap": 26, "swap_window": 6, "swap_malformed": 8, "provide": 14, "provide_first": 4, "withdraw": 12,
           "route": 10, "donate": 6, "lp_burn": 4, "lp_transfer": 3, "unauth": 2, "provide_malformed": 8,
           "route_bad": 2, "intent": 4, "add_decimals": 1}


def factory(w, a):
    return [monitors.C03(w, a)]


def pre_hook(world, gen_, mons):
    """now and then a whale donates 2^100..2^118 of one asset to a funded pair: reserve products beyond every internal
    number range (where formulas fall back, saturate or abort), followed by ordinary use"""
    orig_next = gen_.next

    def nxt():
        if gen_.rng.random() < 0.02:
            funded = [p for p in world.pairs if p.supply(world.ledger) > 0]
            if funded:
                p = gen_.rng.choice(funded)
                asset = gen_.rng.choice(p.assets)
                amt = 1 << gen_.rng.choice([96, 100, 108, 112, 116, 118])
                who = gen_.rng.choice(["attacker", "trader1", "trader2"])
                if world.ledger.get(who, asset[1]) >= amt:
                    gen_.count += 1
                    return world.op_donate(who, p.addr, asset, amt), []
        if gen_.rng.random() < 0.02:
            # a direct swap on a native/native pair with the pair's OTHER coin attached as well, in the order of its reserve
            nn = [p for p in world.pairs if p.kind() == "nn" and min(p.reserves(world.ledger)) > 0]
            if nn:
                p = gen_.rng.choice(nn)
                i = gen_.rng.randrange(2)
                x, y = p.reserves(world.ledger)[i], p.reserves(world.ledger)[1 - i]
                who = gen_.rng.choice(["attacker", "trader1"])
                a = max(1, min(world.ledger.get(who, p.assets[i][1]), x // gen_.rng.choice([2, 5, 20, 200])))
                b = max(1, min(world.ledger.get(who, p.assets[1 - i][1]), y * gen_.rng.choice([1, 2, 5]) // gen_.rng.choice([1, 3])))
                gen_.count += 1
                op = world.op_swap_raw(who, p, "direct", p.assets[i], a, None, 0, to=None,
                                       funds_override=sorted([[p.assets[i][1], str(a)], [p.assets[1 - i][1], str(b)]]))
                op["sem"]["cell"] = "direct/eq/funds=both_pool_coins/named=a%d" % i
                op["sem"]["malformed_gen"] = True
                return op, []
        return orig_next()
    gen_.next = nxt


def corrupt_drop(world, st):
    for p in world.pairs:
        if p.supply(st.pre) > 0 and p.supply(st.post) > 0 and min(p.reserves(st.pre)) > 1 and st.ok:
            k = (p.addr, p.assets[0][1])
            st.post.bal[k] = min(st.post.bal[k], st.pre.bal[k]) - 1
            k1 = (p.addr, p.assets[1][1])
            st.post.bal[k1] = min(st.post.bal[k1], st.pre.bal[k1])
            st.post.supply[p.lp] = max(st.post.supply[p.lp], st.pre.supply[p.lp])
            return st
    return None


def corrupt_mint(world, st):
    for p in world.pairs:
        if p.supply(st.pre) > 0 and min(p.reserves(st.pre)) > 0 and st.op["kind"] in ("swap", "donate", "withdraw", "provide"):
            st.post.supply[p.lp] = max(st.post.supply[p.lp], st.pre.supply[p.lp]) * 2 + 1
            for i in (0, 1):
                k = (p.addr, p.assets[i][1])
                st.post.bal[k] = st.pre.bal[k]
            return st
    return None


CORR = {"reserve_drop": corrupt_drop, "unbacked_mint": corrupt_mint}


def run_shard(acc, prop, tier, seed, shard, nshards, **kw):
    _w.shard(acc, PROP, tier, seed, shard, nshards, factory, WEIGHTS, (12, (120, 240)), (300, (120, 320)), CORR, pre_hook=pre_hook)
    if tier == "thorough":
        # long drift histories on dust pools, where rounding is proportionally largest
        _w.shard(acc, PROP + "drift", tier, seed, shard, nshards, factory,
                 dict(WEIGHTS, swap=40, withdraw=16, provide=16, route=4), (0, (1, 1)), (3, (3000, 3000)), None,
                 world_kw={"scale_bits": 10, "n_native": 2, "n_cw20": 3})


def floors(acc, tier):
    msgs = _w.canary_floor(acc, CORR)
    kinds = set()
    orient = set()
    for k in acc.classes:
        parts = k.split("|")
        if parts[0] != "interleave":
            kinds.add(parts[0])
            orient.add(parts[1])
    if len(kinds) < 6:
        msgs.append("only %d operation kinds changed a funded pair's state" % len(kinds))
    if orient < {"nn", "nt", "tn", "tt"}:
        msgs.append("pair orientations observed: %s" % sorted(orient))
    il = sum(1 for k in acc.classes if k.startswith("interleave|"))
    if il < (60 if tier == "quick" else 120):
        msgs.append("only %d distinct interleaving patterns" % il)
    _w.need(acc, msgs, "pair_state_changes_with_supply", 5000)
    return msgs


RULE = ("every step (successful or not) of seeded multi-actor histories mixing provide / withdraw / swaps both ways / "
        "router routes / donations / direct LP burns and transfers / malformed and unauthorised calls / window offers, "
        "at reserve scales 2^10..2^96 and all commission rates; judged event = a funded pair whose (r0,r1,S) changed. "
        "Class = (op kind, pair orientation, outcome, supply bucket, reserve bucket, rate bucket) plus distinct "
        "(previous foreign op kind -> op kind) interleaving patterns; distinct_nontrivial counts distinct classes.")


def main(tier, seed):
    run_check(PROP, "mon.props.c03", tier, seed, floors, RULE, _w.ASSUME_WORLD +
              ["a decrease caused by a hop matching the C01-window signature is the recorded finding, anything else a violation"])
