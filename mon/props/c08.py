"""C08 — 256-bit arithmetic is exact or aborts, never silently wrong.

Events: (op, operand limbs) -> result limbs | panic, observed through halosrv.
Oracle: Python ints. A returned value must be the exact result; an abort is accepted only where the property permits
one (operand product or result >= 2^256, zero divisor, negative difference); a value where no result is representable,
a wrong value, or an abort anywhere else is a violation."""
import itertools

from .. import gen
from ..core import (D, U128, U256, M128, M256, Server, to_limbs, from_limbs, sub_rng, run_check)

PROP = "C08"

# op -> (kinds of operands, expectation function)
# expectation returns ("ok", value) or ("abort", reason)


# An expectation is (exact, abort_allowed):
#   exact         the mathematical result (rounded toward zero where the type requires) if it is representable in
#                 256 bits, else None (zero divisor, negative difference, result >= 2^256);
#   abort_allowed True iff the property permits an abort here: an operand product or the result exceeds 256 bits,
#                 a divisor is zero, or a difference would be negative.
# Observed ok   => exact is not None and the value equals it (a correct value is always acceptable, even where an
#                  abort would have been permitted);
# observed abort => abort_allowed.


def _fit(v):
    return v if v < U256 else None


def _mulratio(a, n, d):
    if d == 0:
        return (None, True)
    return (_fit(a * n // d), a * n >= U256)


def e_u_add(a, b):
    return (_fit(a + b), a + b >= U256)


def e_u_sub(a, b):
    return (None, True) if a < b else (a - b, False)


def e_u_mul(a, b):
    return (_fit(a * b), a * b >= U256)


def e_u_mul_dec(a, d):
    return (_fit(a * d // D), a * d >= U256)


def e_u_div_dec(a, d):
    if d == 0:
        return (None, True)
    return (_fit(a * D // d), a * D >= U256)


def e_d_mul(a, b):
    return (_fit(a * b // D), a * b >= U256)


def e_d_div(a, b):
    if b == 0:
        return (None, True)
    return (_fit(a * D // b), a * D >= U256)


def e_d_from_ratio(n, d):
    if d == 0:
        return (None, True)
    return (_fit(n * D // d), n * D >= U256)


def e_d_from_uint(v):
    return (_fit(v * D), v * D >= U256)


def _cmp(a, b):
    o = -1 if a < b else (1 if a > b else 0)
    return ([o, a == b, a < b, a <= b, a > b, a >= b], False)


def _narrow(a):
    return (a, False) if a < U128 else (None, True)


OPS = {
    "u_add": (2, e_u_add), "u_add_assign": (2, e_u_add), "u_sub": (2, e_u_sub), "u_mul": (2, e_u_mul),
    "u_mulratio": (3, _mulratio), "u_mul_dec": (2, e_u_mul_dec), "dec_mul_u": (2, lambda d, a: e_u_mul_dec(a, d)),
    "u_div_dec": (2, e_u_div_dec), "u_cmp": (2, _cmp), "d_cmp": (2, _cmp),
    "d_add": (2, e_u_add), "d_add_assign": (2, e_u_add), "d_sub": (2, e_u_sub), "d_mul": (2, e_d_mul),
    "d_div": (2, e_d_div), "d_from_ratio": (2, e_d_from_ratio), "d_from_uint256": (1, e_d_from_uint),
    "u_is_zero": (1, lambda a: (a == 0, False)), "d_is_zero": (1, lambda a: (a == 0, False)),
    "u_to_u128": (1, _narrow), "u_to_uint128": (1, _narrow),
}
SCALAR = {  # ops taking a u64 / u128 scalar rather than limbs
    "d_percent": lambda x: (x * 10 ** 16, False),
    "d_permille": lambda x: (x * 10 ** 15, False),
    "u_from_u64": lambda x: (x, False),
    "u_from_u128": lambda x: (x, False),
    "u_from_uint128": lambda x: (x, False),
}
GRID_OPS = ["u_add", "u_sub", "u_mul", "u_cmp", "d_mul", "d_div"]


def decode(op, v):
    if op in ("u_cmp", "d_cmp", "u_is_zero", "d_is_zero"):
        return v
    if op in ("u_to_u128", "u_to_uint128"):
        return int(v)
    return from_limbs(v)


def encode_args(op, args):
    if op in ("d_percent", "d_permille", "u_from_u64"):
        return [args[0]]
    if op in ("u_from_u128", "u_from_uint128"):
        return [str(args[0])]
    return [to_limbs(x) for x in args]


def judge(op, args, resp):
    """Returns None if the observation is allowed by exact arithmetic, else a description."""
    exact, abort_allowed = SCALAR[op](*args) if op in SCALAR else OPS[op][1](*args)
    r = resp["r"]
    if r == "panic":
        if abort_allowed:
            return None
        return "spurious abort: %r (the exact result %r fits and no operand product exceeds 256 bits)" % (resp.get("e"), exact)
    if r != "ok":
        return "unexpected outcome %r" % (resp,)
    got = decode(op, resp["v"])
    if exact is None:
        return "returned %r where no result is representable (zero divisor / negative difference / result >= 2^256)" % (got,)
    if got != exact:
        return "wrong value: got %r, exact %r" % (got, exact)
    return None


def expected_kind(op, args):
    exact, abort_allowed = SCALAR[op](*args) if op in SCALAR else OPS[op][1](*args)
    return ("noresult" if exact is None else "value") + ("+abort_ok" if abort_allowed else "")


def steer(rng, mult, mod, maxv):
    """v <= maxv with (v*mult) % mod in {0, 1, mod-1} (a rounding edge of floor(v*mult/mod)), or None."""
    from math import gcd
    if mod <= 1 or mult == 0 or gcd(mult, mod) != 1:
        return None
    target = rng.choice([0, 1, mod - 1])
    base = (target * pow(mult, -1, mod)) % mod
    if base > maxv:
        return None
    kmax = (maxv - base) // mod
    k = rng.getrandbits(rng.randrange(0, max(1, kmax.bit_length()))) if kmax > 0 else 0
    return base + min(k, kmax)


def gen_case(rng, op):
    """Operands for `op` + a tag describing the family used."""
    if op in SCALAR:
        if op in ("d_percent", "d_permille", "u_from_u64"):
            x = rng.choice([0, 1, 99, 100, 1000, (1 << 32) - 1, 1 << 32, (1 << 63), (1 << 64) - 1,
                            rng.getrandbits(64), rng.getrandbits(rng.randrange(1, 65))])
        else:
            x = gen.u128(rng)[0]
        return (x,), "scalar"
    n = OPS[op][0]
    a, ta = gen.u256(rng)
    if n == 1:
        if op in ("u_to_u128", "u_to_uint128") and rng.random() < 0.5:
            a = rng.choice([M128, U128, U128 + 1, M128 - 1, gen.rand_bits(rng, 128), gen.rand_bits(rng, 129),
                            (1 << 192), (1 << 128) | gen.rand_bits(rng, 64), 1 << 255, (1 << 64) << 64])
            ta = "narrow_edge"
        if op == "d_from_uint256" and rng.random() < 0.5:
            a = M256 // D + rng.choice([-1, 0, 1, 2])
            ta = "cofactor"
        return (a,), ta
    r = rng.random()
    if n == 2:
        if op in ("u_mul", "d_mul", "u_mul_dec", "dec_mul_u") and r < 0.25:
            b = gen.cofactor_near(rng, a)
            return ((b, a) if op == "dec_mul_u" and rng.random() < 0.5 else (a, b)), ta + "+cofactor"
        if op in ("d_mul", "u_mul_dec", "dec_mul_u") and r < 0.5:
            # a*b mod D on {0,1,D-1}
            a = a >> rng.randrange(0, 130)
            b = steer(rng, a, D, max(1, (M256 // max(a, 1))))
            if b is not None:
                return (a, b), "residue"
        if op in ("d_div", "u_div_dec", "d_from_ratio") and r < 0.15:
            a = M256 // D + rng.choice([-1, 0, 0, 1])
            d = max(1, gen.u256(rng)[0] >> rng.randrange(0, 200))
            return (a, d), "num_cofactor"
        if op in ("d_div", "u_div_dec", "d_from_ratio") and r < 0.5:
            # a*D mod d on {0,1,d-1}
            d = max(2, gen.u256(rng)[0] >> rng.randrange(0, 220))
            a2 = steer(rng, D, d, M256 // D)
            if a2 is not None:
                return (a2, d), "residue"
        if op in ("u_add", "d_add", "u_add_assign", "d_add_assign") and r < 0.3:
            b = M256 - a + rng.choice([-1, 0, 1, 2])
            return (a, max(0, min(b, M256))), ta + "+complement"
        if op in ("u_sub", "d_sub", "u_cmp", "d_cmp") and r < 0.4:
            k = rng.randrange(0, 4)
            b = a + rng.choice([-1, 0, 1]) * rng.choice([1, 1 << (64 * k), max(1, (1 << (64 * k)) - 1)])
            return (a, max(0, min(b, M256))), ta + "+near"
        if r > 0.9 and op in ("d_div", "u_div_dec", "d_from_ratio"):
            return (a, 0), ta + "+zero_div"
        if 0.8 < r <= 0.9 and op in ("d_div", "u_div_dec", "d_from_ratio"):
            # divisor an exact multiple / divisor of the dividend (also beyond the range where a*10^18 fits)
            k = rng.choice([2, 3, 4, 5, 7, 10, 16, 1000])
            big = max(1, a if rng.random() < 0.5 else (M256 // D + 1 + gen.rand_bits(rng, 40)))
            if rng.random() < 0.5 and big * k <= M256:
                return (big, big * k), "multiple"
            return (big - big % k or k, max(1, (big - big % k) // k)), "divisor"
        b, tb = gen.u256(rng)
        return (a, b), ta + "+" + tb
    # u_mulratio(a, n, d)
    if r < 0.25:
        n_ = gen.cofactor_near(rng, a)
        return (a, n_, gen.u256(rng)[0]), ta + "+cofactor"
    if r < 0.6:
        a = max(1, a >> rng.randrange(0, 200))
        d = max(2, gen.u256(rng)[0] >> rng.randrange(0, 220))
        n_ = steer(rng, a, d, M256 // a)
        if n_ is not None:
            return (a, n_, d), "residue"
    if r > 0.93:
        return (a, gen.u256(rng)[0], 0), ta + "+zero_div"
    return (a, gen.u256(rng)[0], gen.u256(rng)[0]), ta + "+rand"


def run_cases(acc, srv, cases):
    """cases: list of (op, args, tag)"""
    resps = srv.calls([(op, encode_args(op, args)) for op, args, _ in cases])
    for (op, args, tag), resp in zip(cases, resps):
        acc.ev()
        bad = judge(op, args, resp)
        outcome = resp["r"]
        acc.cls(op, outcome, expected_kind(op, args), tag, *[gen.bucket(x) for x in args])
        if outcome == "ok" and "abort_ok" in expected_kind(op, args):
            acc.count("exact_value_where_abort_was_permitted")
        acc.count("outcome_" + outcome)
        if bad:
            acc.violation("%s%r: %s" % (op, tuple(args), bad),
                          {"kind": "fn", "f": op, "a": encode_args(op, args), "args": [str(x) for x in args],
                           "observed": resp})
        elif len(acc.samples) < acc.max_samples and outcome != "err":
            acc.sample({"op": op, "args": [str(x) for x in args], "observed": resp, "family": tag})


def run_shard(acc, prop, tier, seed, shard, nshards, **kw):
    rng = sub_rng(seed, PROP, tier, shard)
    srv = Server(log=False)
    try:
        n_random = 30000 if tier == "quick" else 600000
        ops = list(OPS) + list(SCALAR)
        batch = []
        for i in range(n_random):
            op = ops[i % len(ops)]
            args, tag = gen_case(rng, op)
            batch.append((op, args, tag))
            if len(batch) >= 2000:
                run_cases(acc, srv, batch)
                batch = []
        if batch:
            run_cases(acc, srv, batch)
        # edge grid: every op on every tuple of boundary constants (zero operands, zero divisors, 10^18, 2^128, maxima)
        E = [0, 1, 2, D - 1, D, D + 1, M128, U128, M256 - 1, M256, M256 // D, M256 // D + 1]
        batch = []
        for op in OPS:
            n_ = OPS[op][0]
            tuples = [(a,) for a in E] if n_ == 1 else ([(a, b) for a in E for b in E] if n_ == 2 else
                                                       [(a, b, c) for a in E[:8] + E[9:10] for b in E[:8] + E[9:10] for c in (0, 1, D, M256)])
            if shard == 0:
                batch += [(op, t, "edgegrid") for t in tuples]
        for i in range(0, len(batch), 2000):
            run_cases(acc, srv, batch[i:i + 2000])
        # limb grid: exhaustive over {0,1,2^32-1,2^32,2^63,2^64-1}^4 x same for binary ops (thorough),
        # a seeded slice of it in quick
        grid_vals = [sum(l << (64 * i) for i, l in enumerate(ls)) for ls in itertools.product(gen.LIMB_GRID, repeat=4)]
        pairs_total = len(grid_vals) ** 2
        if tier == "thorough":
            idxs = range(shard, pairs_total, nshards)
            acc.count("grid_exhaustive_pairs", len(idxs))
        else:
            r2 = sub_rng(seed, PROP, "gridslice", shard)
            idxs = [r2.randrange(pairs_total) for _ in range(6000)]
        batch = []
        for j in idxs:
            a = grid_vals[j // len(grid_vals)]
            b = grid_vals[j % len(grid_vals)]
            for op in GRID_OPS:
                batch.append((op, (a, b), "gridpair"))
            if len(batch) >= 2400:
                run_cases(acc, srv, batch)
                batch = []
        if batch:
            run_cases(acc, srv, batch)
        canary(acc, srv)
    finally:
        srv.close()


def canary(acc, srv):
    """The oracle must flag corrupted observations of real events."""
    fired = 0
    tests = [("u_add", (5, 7)), ("u_mul", (1 << 200, 1 << 60)), ("d_div", (D, 3 * D)), ("u_sub", (1, 2))]
    for op, args in tests:
        resp = srv.call(op, encode_args(op, args))
        if judge(op, args, resp) is not None:
            acc.violation("canary baseline disagreed for %s%r: %r" % (op, args, resp), {"kind": "canary"})
            continue
        if resp["r"] == "ok":
            v = list(resp["v"])
            v[0] = (v[0] + 1) % (1 << 64)
            bad = dict(resp, v=v)
        else:
            bad = {"r": "ok", "v": [0, 0, 0, 0]}
        if judge(op, args, bad) is not None:
            fired += 1
    acc.count("canary_fired", fired)
    acc.count("canary_expected", len(tests))


def floors(acc, tier):
    msgs = []
    c = acc.counters
    if c.get("canary_fired", 0) != c.get("canary_expected", -1):
        msgs.append("canary silent (%s/%s)" % (c.get("canary_fired"), c.get("canary_expected")))
    if c.get("outcome_panic", 0) < 1000 or c.get("outcome_ok", 0) < 10000:
        msgs.append("too few ok/abort outcomes observed")
    need = set(OPS) | set(SCALAR)
    seen = set(k.split("|")[0] for k in acc.classes)
    if need - seen:
        msgs.append("ops never exercised: %s" % sorted(need - seen))
    return msgs


RULE = ("cases = (operation, operands) drawn from: limb-pattern grid {0,1,2^32-1,2^32,2^63,2^64-1}^4, 10^k±1, "
        "2^k±1, co-factors straddling 2^256, residue-steered dividends q*d+{0,1,d-1}, zero divisors, random; "
        "thorough walks the full 1296x1296 limb-grid pair space for 6 binary ops. A class is "
        "(op, outcome ok/panic, generator family, 32-bit magnitude bucket of each operand); "
        "distinct_nontrivial = number of distinct classes observed.")
ASSUME = ["Python arbitrary-precision ints are the exact-arithmetic reference",
          "operands/results cross the boundary as raw 64-bit limbs (serde_json u64), not through the library's own text codec",
          "panic = abort (caught with catch_unwind in the adapter)"]


def main(tier, seed):
    run_check(PROP, "mon.props.c08", tier, seed, floors, RULE, ASSUME, post_fn=post)


def post(acc, tier, seed):
    if tier == "thorough":
        from .. import sanitize
        sanitize.memcheck_leg(acc, PROP, seed)
