"""C15 — provision succeeds only within the caller's slippage tolerance.

Function level on assert_slippage_tolerance (half of the cases within a few units of the limit); system level: provisions with a
tolerance after interleaved foreign swaps, on pairs with native assets too (the guard must see reserves net of the caller's deposit)."""
from .. import gen, monitors
from ..core import D, M128, Server, sub_rng, run_check
from . import _w

PROP = "C15"
WEIGHTS = {"swap": 34, "swap_window": 1, "route": 4, "provide": 30, "provide_first": 3, "withdraw": 6, "donate": 6,
           "swap_malformed": 0, "provide_malformed": 0, "unauth": 0, "transfer": 0, "lp_transfer": 0, "lp_burn": 1,
           "route_bad": 0, "intent": 30, "add_decimals": 0}


def factory(w, a):
    return [monitors.C15(w, a)]


def _tol(st):
    return st.op["kind"] == "provide" and st.op["sem"].get("slippage") is not None


def corrupt_accept(world, st):
    if not _tol(st) or st.ok or "Max slippage assertion" not in st.res.get("e", ""):
        return None
    sem = st.op["sem"]
    r0, r1 = sem["pair"].reserves(st.pre)
    d0, d1 = sem["amounts"]
    t = sem["slippage"]
    # only when clearly outside (so that the corrupted event is a real violation of the statement)
    if monitors.slippage_verdict(t, d0, d1, r0, r1, "ok") is None:
        return None
    st.res = {"r": "ok", "v": {"events": []}}
    return st


def corrupt_reject(world, st):
    if not _tol(st) or not st.ok:
        return None
    sem = st.op["sem"]
    r0, r1 = sem["pair"].reserves(st.pre)
    d0, d1 = sem["amounts"]
    if monitors.slippage_verdict(sem["slippage"], d0, d1, r0, r1, "guard") is None:
        return None
    st.res = {"r": "err", "e": "Max slippage assertion\x1fx"}
    return st


CORR = {"outside_tolerance_accepted": corrupt_accept, "inside_tolerance_rejected": corrupt_reject}


def fn_case(rng):
    t = rng.choice([0, 1, 10 ** 15, 10 ** 16, 5 * 10 ** 16, 5 * 10 ** 17, D - 1, D, D + 1, 2 * D, rng.randrange(0, D + 1),
                    rng.randrange(0, D + 1), rng.randrange(0, D + 1),
                    # far above 100%: multiples of 2^64 / 2^96 plus a small remainder, and anything up to u128::MAX
                    (rng.randrange(1, 1 << 40) << 64) + rng.randrange(0, D + 1), (1 << 64) + rng.randrange(0, D + 1),
                    (rng.randrange(1, 1 << 20) << 96) + rng.randrange(0, D + 1), rng.getrandbits(rng.randrange(61, 129))])
    sb = rng.choice([4, 10, 20, 40, 60, 64, 80, 100, 120, 128])
    p0, p1 = gen.amount128(rng, sb), gen.amount128(rng, max(1, min(127, sb + rng.randrange(-70, 71))))
    d1 = gen.amount128(rng, rng.choice([4, 10, 20, 40, 60, 64, 80, 100, 120]))
    r = rng.random()
    tag = "rand"
    if r < 0.55 and t <= D:
        # d0 ~ d1*(p0/p1)/(1-t)  (first inequality at its limit) or the symmetric one
        if rng.random() < 0.5:
            den = p1 * max(1, D - t)
            d0 = d1 * p0 * D // den + rng.randrange(-2, 3)
            tag = "limit_a"
        else:
            d0 = d1 * p0 * max(0, D - t) // (p1 * D) + rng.randrange(-2, 3)
            tag = "limit_b"
        d0 = max(0, min(d0, M128))
    elif r < 0.7:
        d0 = d1 * p0 // p1 + rng.choice([-1, 0, 1])
        d0 = max(0, min(d0, M128))
        tag = "balanced"
    elif r < 0.75:
        d0, tag = rng.choice([0, gen.amount128(rng)]), "zeroish"
        if rng.random() < 0.5:
            d1 = 0
        if rng.random() < 0.3:
            p1 = 0
    else:
        d0 = gen.amount128(rng)
    return (t if rng.random() < 0.97 else None, d0, d1, p0, p1), tag


def fn_leg(acc, srv, rng, n):
    from ..core import dropped_groups
    if "fn_guards" in dropped_groups():
        acc.count("fn_leg_skipped_adapter_built_without_fn_guards")
        return
    cases = [fn_case(rng) for _ in range(n)]
    reqs = [("assert_slippage_tolerance", [None if c[0] is None else str(c[0]), str(c[1]), str(c[2]), str(c[3]), str(c[4])])
            for c, _ in cases]
    for (c, tag), rq, resp in zip(cases, reqs, srv.calls(reqs)):
        t, d0, d1, p0, p1 = c
        outcome = "ok" if resp["r"] == "ok" else ("guard" if resp.get("e") == "Max slippage assertion" else "other")
        acc.ev()
        acc.cls("fn", tag, outcome, "t" + gen.bucket(t or 0), "t>1" if (t or 0) > D else "t<=1", gen.bucket(max(d0, d1)), gen.bucket(max(p0, p1)))
        acc.count("fn_" + outcome)
        v = monitors.slippage_verdict(t, d0, d1, p0, p1, outcome)
        if t is None and outcome != "ok":
            v = "rejected without a tolerance"
        case = {"kind": "fn", "f": "assert_slippage_tolerance", "a": rq[1], "observed": resp, "family": tag}
        if v:
            acc.violation("assert_slippage_tolerance(t=%s, d=(%d,%d), r=(%d,%d)) -> %s: %s" % (t, d0, d1, p0, p1, outcome, v), case)
        elif len(acc.samples) < 3 and outcome != "other":
            acc.sample(case)


def run_shard(acc, prop, tier, seed, shard, nshards, **kw):
    srv = Server(log=False)
    try:
        fn_leg(acc, srv, sub_rng(seed, PROP, tier, shard, "fn"), 25000 if tier == "quick" else 800000)
    finally:
        srv.close()
    _w.shard(acc, PROP, tier, seed, shard, nshards, factory, WEIGHTS, (14, (140, 220)), (260, (140, 300)), CORR)


def floors(acc, tier):
    msgs = _w.canary_floor(acc, CORR)
    _w.need(acc, msgs, "fn_ok", 60000)
    _w.need(acc, msgs, "fn_guard", 60000)
    _w.need(acc, msgs, "sys_tolerance_ok", 1000)
    _w.need(acc, msgs, "sys_tolerance_guard", 800)
    if not any(k.startswith("fn|") and "|t>1|" in k for k in acc.classes):
        msgs.append("tolerance above 100% never tried")
    kinds = set(k.split("|")[1] for k in acc.classes if k.startswith("sys|"))
    if not {"nn", "nt", "tn", "tt"} <= kinds:
        msgs.append("pair orientations with tolerance: %s" % sorted(kinds))
    return msgs


RULE = ("function: assert_slippage_tolerance with tolerances {0, 1e-18, ..., 1-1e-18, 1, >1, random 18-digit}, reserves 2^4..2^128, "
        "55% of deposits placed within +-2 units of either inequality's limit; system: provisions carrying a tolerance 0..3 foreign "
        "operations after the deposits were sized against the pool (swaps by other traders in between), reserves taken from the ledger "
        "BEFORE the transaction (net of attached native funds). Class = (level, family | pair orientation, outcome ok/guard/other, tolerance bucket, ...).")


def main(tier, seed):
    run_check(PROP, "mon.props.c15", tier, seed, floors, RULE, _w.ASSUME_WORLD[:1] + ["exact rationals by integer cross-multiplication",
              "only the guard's own error 'Max slippage assertion' counts as a guard verdict"])
