"""C14 — privileged and internal entry points reject every other caller.

Finite matrix walked exhaustively in every sampled world state:
  messages {factory: UpdateConfig, CreatePair, AddNativeTokenDecimals, MigratePair; pair: UpdateNativeTokenDecimals,
            Receive(withdraw hook), Receive(swap hook); router: ExecuteSwapOperation, AssertMinimumReceive}
  x callers {owner, former owner, new owner, stranger, attacker, factory, router, pairs, LP tokens, asset tokens, another pair's
             tokens, rogue cw20 (direct call and a real Send from that token)}
  x phases {before / after ownership transfer} x pre-histories.
Oracle: success => caller is the authorised role of that cell; every unauthorised cell fails with ledger + all digests unchanged;
positive controls (authorised caller, well-formed message) must succeed or the run is inconclusive."""
from .. import monitors
from ..core import Server, sub_rng, run_check, HarnessFault
from ..hist import HistGen
from ..world import World, ainfo, b64, err_text, ACTORS
from ..wrun import op_brief
from . import _w

PROP = "C14"
WEIGHTS = {"swap": 30, "provide": 14, "provide_first": 6, "withdraw": 8, "route": 10, "donate": 6, "swap_malformed": 2,
           "swap_window": 0, "provide_malformed": 0, "unauth": 6, "transfer": 0, "lp_transfer": 2, "lp_burn": 1,
           "route_bad": 0, "intent": 0, "add_decimals": 2}


def cell_msgs(w, rng, p, q):
    """(target, name, msg, authorised_role) for the privileged / internal entry points. p, q: two pairs."""
    nat = rng.choice(w.natives)
    newpair = [ainfo(("t", w.rogue)), ainfo(rng.choice(w.natives))]
    out = [
        (w.factory, "factory.update_config", {"update_config": {"owner": rng.choice(["attacker", None, "trader1"]),
                                                                "token_code_id": rng.choice([None, w.codes["cw20"]]),
                                                                "pair_code_id": None}}, "owner"),
        (w.factory, "factory.create_pair", {"create_pair": {
            "asset_infos": newpair, "requirements": {"whitelist": ["attacker"], "first_asset_minimum": "0", "second_asset_minimum": "0"},
            "commission_rate": "0", "lp_token_info": {"lp_token_name": "lptoken", "lp_token_symbol": "LPT", "lp_token_decimals": None}}},
         "owner"),
        (w.factory, "factory.add_native_token_decimals", {"add_native_token_decimals": {"denom": nat[1], "decimals": rng.choice([0, 6, 18])}}, "owner"),
        (w.factory, "factory.migrate_pair", {"migrate_pair": {"contract": p.addr, "code_id": rng.choice([None, w.codes["pair2"]])}}, "owner"),
        (w.router, "router.execute_swap_operation", {"execute_swap_operation": {
            "operation": {"halo_swap": {"offer_asset_info": ainfo(p.assets[0]), "ask_asset_info": ainfo(p.assets[1])}},
            "to": rng.choice(["attacker", None])}}, "router"),
        (w.router, "router.execute_swap_operation", {"execute_swap_operation": {
            "operation": {"halo_swap": {"offer_asset_info": ainfo(p.assets[1]), "ask_asset_info": ainfo(p.assets[0])}},
            "to": rng.choice(["attacker", None])}}, "router"),
        (w.router, "router.execute_swap_operation", {"execute_swap_operation": {
            "operation": {"halo_swap": {"offer_asset_info": ainfo(q.assets[0]), "ask_asset_info": ainfo(q.assets[1])}},
            "to": "attacker"}}, "router"),
        (w.router, "router.execute_swap_operation", {"execute_swap_operation": {
            "operation": {"halo_swap": {"offer_asset_info": ainfo(q.assets[1]), "ask_asset_info": ainfo(q.assets[0])}},
            "to": None}}, "router"),
        (w.router, "router.assert_minimum_receive", {"assert_minimum_receive": {
            "asset_info": ainfo(p.assets[0]), "prev_balance": "0", "minimum_receive": rng.choice(["0", "0", "1", "1000"]),
            "receiver": "attacker"}}, "router"),
    ]
    for pr in (p, q):
        dn = [a for a in pr.assets if a[0] == "n"]
        denom = dn[0][1] if dn else nat[1]
        out.append((pr.addr, "pair.update_native_token_decimals", {"update_native_token_decimals": {
            "denom": denom, "asset_decimals": [rng.randrange(19), rng.randrange(19)]}}, ("factory",)))
        out.append((pr.addr, "pair.receive_withdraw", {"receive": {
            "sender": "attacker", "amount": str(rng.choice([1, 2, 1000, 10 ** 9])), "msg": b64({"withdraw_liquidity": {}})}}, ("lp", pr)))
        for off in pr.assets:
            if off[0] == "t":
                # the cw20-offer swap path entered through the sibling direct message: no caller is entitled to it
                amt = rng.choice([1, 1000, 10 ** 6])
                out.append((pr.addr, "pair.swap_direct_with_cw20_offer", {"swap": {
                    "offer_asset": {"info": ainfo(off), "amount": str(amt)}, "belief_price": None, "max_spread": None, "to": None}},
                    ("nobody",), rng.choice([[], [[w.natives[0][1], "1"]], [[rng.choice(w.natives)[1], str(amt)]]])))
        for off in pr.assets:
            amt = rng.choice([1, 1000, 10 ** 6])
            out.append((pr.addr, "pair.receive_swap", {"receive": {
                "sender": "attacker", "amount": str(amt),
                "msg": b64({"swap": {"offer_asset": {"info": ainfo(off), "amount": str(amt)}, "belief_price": None,
                                     "max_spread": None, "to": None}})}}, ("assets", pr)))
    return out


def callers(w, p, q, owner, former):
    cs = [("owner", owner), ("stranger", "trader1"), ("attacker", "attacker"), ("factory", w.factory), ("router", w.router),
          ("rogue_cw20", w.rogue)]
    # account names the simulator's address codec refuses (shorter than 3 / longer than 54 characters): a check that
    # canonicalises the sender must fail closed for them. (No upper-case spelling of the owner: the codec folds case, so
    # "OWNER" IS the owner's account, as an upper-case bech32 string is on a real chain.)
    cs += [("oddname_short", "me"), ("oddname_long", "x" * 60)]
    if former:
        cs.append(("former_owner", former))
    for i, pr in enumerate((p, q)):
        cs.append(("pair%d" % i, pr.addr))
        cs.append(("lp%d" % i, pr.lp))
        for a in pr.assets:
            if a[0] == "t":
                cs.append(("assettoken_of_pair%d" % i, a[1]))
    if getattr(w, "proxy", None):
        cs.append(("attacker_proxy", w.proxy))
    others = [t for t in w.tokens if t not in p.assets and t not in q.assets]
    if others:
        cs.append(("foreign_token", others[0][1]))
    seen, out = set(), []
    for role, addr in cs:
        if (addr) not in seen or role in ("former_owner",):
            out.append((role, addr))
            seen.add(addr)
    return out


def authorised(w, auth, caller_addr, owner):
    if auth == "owner":
        return caller_addr == owner
    if auth == "router":
        return caller_addr == w.router
    if auth[0] == "factory":
        return caller_addr == w.factory
    if auth[0] == "lp":
        return caller_addr == auth[1].lp
    if auth[0] == "assets":
        return caller_addr in [a[1] for a in auth[1].assets if a[0] == "t"]
    return False


def do_cell(acc, w, phase, role, caller, target, name, msg, auth, owner, via="direct", funds=None):
    ok_auth = authorised(w, auth, caller, owner)
    if ok_auth:
        # authorised cells are exercised by the positive controls (they change roles / registry and would
        # invalidate the rest of the matrix walk); here only count them
        acc.count("cells_authorised_skipped")
        return None
    op = {"kind": "matrix", "actor": caller, "contract": target, "msg": msg, "funds": sorted(funds or []), "sem": {"cell": name, "role": role}}
    if role == "attacker_proxy":
        # the attacker has its contract send the message (the target sees the contract as the caller)
        op = {"kind": "matrix", "actor": "attacker", "contract": caller, "msg": {"forward": {"contract": target, "msg": msg}},
              "funds": [], "sem": {"cell": name, "role": role}}
        via = "proxy"
    st = w.step(op)
    acc.ev()
    acc.cls(phase, name, role, via + ("+funds" if funds else ""), "auth" if ok_auth else "unauth", st.res["r"])
    acc.count("cells_" + ("authorised" if ok_auth else "unauthorised"))
    if ok_auth:
        return st
    acc.count("unauthorised_" + st.res["r"])
    if st.ok:
        acc.violation("%s accepted from %s (%s) in phase %s" % (name, role, caller, phase),
                      monitors.case_of(w, st, phase=phase, current_owner=owner))
    elif not st.pre.same_as(st.post):
        acc.violation("rejected %s from %s changed state" % (name, role), monitors.case_of(w, st, phase=phase))
    elif len(acc.samples) < acc.max_samples:
        acc.sample({"phase": phase, "cell": name, "caller_role": role, "caller": caller, "outcome": st.res["r"],
                    "error": err_text(st.res)[:80]})
    return st


def real_send_cells(acc, w, phase, p, owner):
    """hooks delivered by a REAL cw20 Send from tokens that are not the authorised origin"""
    amt = max(1, min(1000, w.ledger.get(p.addr, p.lp) // 2)) if w.ledger.get(p.addr, p.lp) > 1 else 1000
    sends = []
    swap_hook = lambda off: b64({"swap": {"offer_asset": {"info": ainfo(off), "amount": str(amt)}, "belief_price": None,
                                           "max_spread": None, "to": None}})
    wd_hook = b64({"withdraw_liquidity": {}})
    foreign = [t for t in w.tokens if t not in p.assets]
    # rogue token sends a swap hook naming each pair asset, and a withdraw hook
    for off in p.assets:
        sends.append(("rogue_cw20_send", "attacker", w.rogue, "pair.receive_swap", swap_hook(off), ("assets", p)))
    sends.append(("rogue_cw20_send", "attacker", w.rogue, "pair.receive_withdraw", wd_hook, ("lp", p)))
    if foreign:
        sends.append(("foreign_token_send", "attacker", foreign[0][1], "pair.receive_swap", swap_hook(p.assets[0]), ("assets", p)))
        sends.append(("foreign_token_send", "attacker", foreign[0][1], "pair.receive_withdraw", wd_hook, ("lp", p)))
    for a in p.assets:
        if a[0] == "t":
            sends.append(("assettoken_send", "attacker", a[1], "pair.receive_withdraw", wd_hook, ("lp", p)))
    # the pair's LP token sends a swap hook (LP holder needed)
    holders = [x for x in ACTORS if w.ledger.get(x, p.lp) >= amt]
    if holders:
        for off in p.assets:
            sends.append(("lp_token_send", holders[0], p.lp, "pair.receive_swap", swap_hook(off), ("assets", p)))
    for role, sender, token, name, hook, auth in sends:
        if w.ledger.get(sender, token) < amt:
            continue
        msg = {"send": {"contract": p.addr, "amount": str(amt), "msg": hook}}
        op = {"kind": "matrix", "actor": sender, "contract": token, "msg": msg, "funds": [], "sem": {"cell": name, "role": role}}
        st = w.step(op)
        ok_auth = authorised(w, auth, token, owner)
        acc.ev()
        acc.cls(phase, name, role, "real_send", "auth" if ok_auth else "unauth", st.res["r"])
        if ok_auth:
            continue
        acc.count("cells_unauthorised")
        acc.count("unauthorised_" + st.res["r"])
        if st.ok:
            acc.violation("%s accepted through a real Send from %s (%s)" % (name, role, token), monitors.case_of(w, st, phase=phase))
        elif not st.pre.same_as(st.post):
            acc.violation("rejected hook from %s changed state" % role, monitors.case_of(w, st, phase=phase))


def positive_controls(acc, w, rng, phase, p, owner):
    """authorised caller + well-formed message must succeed (else the run says nothing about the guard)."""
    nat = rng.choice(w.natives)
    ctl = [
        ("factory.update_config", owner, w.factory, {"update_config": {"owner": None, "token_code_id": w.codes["cw20"], "pair_code_id": None}}),
        ("factory.add_native_token_decimals", owner, w.factory, {"add_native_token_decimals": {"denom": nat[1], "decimals": w.decimals[nat[1]]}}),
        ("factory.migrate_pair", owner, w.factory, {"migrate_pair": {"contract": p.addr, "code_id": w.codes["pair2"]}}),
    ]
    dn = [a for a in p.assets if a[0] == "n"]
    if dn:
        ctl.append(("pair.update_native_token_decimals", w.factory, p.addr,
                    {"update_native_token_decimals": {"denom": dn[0][1], "asset_decimals": list(p.decimals)}}))
    for name, caller, target, msg in ctl:
        st = w.step({"kind": "matrix", "actor": caller, "contract": target, "msg": msg, "funds": [], "sem": {"cell": name, "role": "authorised"}})
        acc.ev()
        acc.cls(phase, name, "positive_control", "direct", "auth", st.res["r"])
        acc.count("positive_control_" + ("ok" if st.ok else "failed"))
        if not st.ok:
            acc.count("positive_control_failed:" + name)
    # create_pair positive control (a set that does not exist yet)
    exists = w.pair_for(("t", w.rogue), w.natives[0])
    if not exists:
        r, np_ = w.create_pair(("t", w.rogue), w.natives[0], 0, ["lp1"], [0, 0], sender=owner, must=False)
        acc.ev()
        acc.cls(phase, "factory.create_pair", "positive_control", "direct", "auth", r["r"])
        acc.count("positive_control_" + ("ok" if r["r"] == "ok" else "failed"))
        if r["r"] != "ok":
            acc.count("positive_control_failed:factory.create_pair")
        else:
            w.extra_accounts = []
            w.retrack()
    # hooks: real LP send (withdraw) and real asset-token send (swap) and a real route (router self-calls)
    g = HistGen(w, rng)
    for _ in range(6):
        op, q = g.g_withdraw()
        if op["kind"] == "withdraw":
            st = w.step(op, q)
            if st.ok:
                acc.count("positive_control_ok")
                acc.cls(phase, "pair.receive_withdraw", "positive_control", "real_send", "auth", "ok")
                break
    for _ in range(8):
        op, q = g.g_swap()
        if op["sem"]["entry"] == "hook":
            st = w.step(op, q)
            if st.ok:
                acc.count("positive_control_ok")
                acc.cls(phase, "pair.receive_swap", "positive_control", "real_send", "auth", "ok")
                break
    for _ in range(8):
        spec, quotes = g.g_route()
        op = w.op_route(spec["actor"], spec["hops"], spec["amount"], minimum_receive=0)
        st = w.step(op, quotes)
        if st.ok:
            acc.count("positive_control_ok")
            acc.cls(phase, "router.internal_messages", "positive_control", "via_route", "auth", "ok")
            break


def run_world(acc, srv, key):
    rng = sub_rng(*key)
    w = World(srv, rng)
    w.key = key
    g = HistGen(w, rng, WEIGHTS)
    for p in g.seed_liquidity():
        save = w.pairs
        w.pairs = [p]
        try:
            op, q = g.g_provide(first=True)
        finally:
            w.pairs = save
        w.step(op, q)
    for _ in range(rng.randrange(20, 70)):
        op, q = g.next()
        w.step(op, q)
    # a contract the attacker deployed: it forwards any message in its own name and answers every query by relaying it to the
    # factory (it can describe itself as the factory does)
    w.proxy = w._inst("proxy", "attacker", {"target": w.factory})
    w.extra_accounts = list(w.extra_accounts) + [w.proxy]
    w.retrack()
    owner, former = "owner", None
    for phase in ("before_transfer", "after_transfer"):
        p, q_ = rng.sample(w.pairs, 2)
        # park stray LP (and some of each asset) on the pairs themselves: hooks that would otherwise die at the
        # final burn/transfer can then take effect if an origin check is missing
        # ... and stray balances of the pairs' assets on the router (an unguarded single-hop message could spend them)
        for a_ in sorted(set(p.assets + q_.assets)):
            amt_ = rng.choice([1000, 10 ** 6, 1 << w.scale_bits])
            if w.ledger.get("attacker", a_[1]) >= amt_:
                st = w.step(w.op_donate("attacker", w.router, a_, amt_))
                acc.count("assets_parked_on_router" if st.ok else "asset_park_failed")
        for pr in (p, q_):
            holders = [x for x in ACTORS if w.ledger.get(x, pr.lp) >= 4]
            if holders:
                h = rng.choice(holders)
                amt = max(1, w.ledger.get(h, pr.lp) // rng.choice([2, 4, 10]))
                st = w.step(w.op_lp_transfer(h, pr, pr.addr, amt))
                acc.count("lp_parked_on_pair" if st.ok else "lp_park_failed")
        msgs = cell_msgs(w, rng, p, q_)
        for role, caller in callers(w, p, q_, owner, former):
            for cell in msgs:
                target, name, msg, auth = cell[:4]
                funds = cell[4] if len(cell) > 4 else []
                if funds and any(w.ledger.get(caller, d) < int(a) for d, a in funds):
                    funds = []
                do_cell(acc, w, phase, role, caller, target, name, msg, auth, owner, funds=funds)
        real_send_cells(acc, w, phase, p, owner)
        real_send_cells(acc, w, phase, q_, owner)
        positive_controls(acc, w, rng, phase, p, owner)
        if phase == "before_transfer":
            # ownership transfer by the owner: roles swap
            new_owner = rng.choice(["trader2", "lp2"])
            # every shape of the message: code ids absent, equal to the stored ones, or changed
            tc = rng.choice([None, w.codes["cw20"], w.codes["cw20"]])
            pc = rng.choice([None, w.codes["pair"], w.codes["pair2"]])
            st = w.step({"kind": "matrix", "actor": owner, "contract": w.factory,
                         "msg": {"update_config": {"owner": new_owner, "token_code_id": tc, "pair_code_id": pc}},
                         "funds": [], "sem": {"cell": "ownership_transfer"}})
            acc.cls("ownership_transfer", "tc=%s" % ("none" if tc is None else "same"), "pc=%s" % ("none" if pc is None else ("same" if pc == w.codes["pair"] else "new")), st.res["r"])
            if not st.ok:
                acc.count("positive_control_failed:ownership_transfer")
                return
            acc.count("ownership_transfers")
            cfg = w.q(w.factory, {"config": {}})
            if cfg["r"] != "ok" or cfg["v"]["owner"] != new_owner:
                acc.violation("ownership did not follow a successful configuration update: config says %r" % (cfg.get("v"),),
                              monitors.case_of(w, st))
            owner, former = new_owner, owner
            for _ in range(rng.randrange(0, 15)):
                op, q = g.next()
                w.step(op, q)
    # ownership handed along a chain that passes through the system's own contracts (the factory itself among them):
    # it must follow EVERY successful update, and each former owner must be locked out at once
    chain = [w.router, p.lp, w.factory, p.addr, w.tokens[0][1], rng.choice(["lp1", "trader1"])]
    rng.shuffle(chain)
    for new_owner in chain:
        if new_owner == owner:
            continue
        st = w.step({"kind": "matrix", "actor": owner, "contract": w.factory,
                     "msg": {"update_config": {"owner": new_owner, "token_code_id": None, "pair_code_id": None}},
                     "funds": [], "sem": {"cell": "ownership_chain"}})
        acc.ev()
        role = "factory" if new_owner == w.factory else ("contract" if new_owner.startswith("contract") else "account")
        acc.cls("ownership_chain", role, st.res["r"])
        if not st.ok:
            acc.count("positive_control_failed:ownership_chain")
            break
        acc.count("ownership_chain_hops")
        cfg = w.q(w.factory, {"config": {}})
        if cfg["r"] != "ok" or cfg["v"]["owner"] != new_owner:
            acc.violation("ownership did not follow a successful configuration update naming %s (%s): config says %r"
                          % (new_owner, role, cfg.get("v")), monitors.case_of(w, st))
            break
        former, owner = owner, new_owner
        st2 = w.step({"kind": "matrix", "actor": former, "contract": w.factory,
                      "msg": {"update_config": {"owner": former, "token_code_id": None, "pair_code_id": None}},
                      "funds": [], "sem": {"cell": "former_owner_after_chain_hop"}})
        acc.ev()
        if st2.ok:
            acc.violation("factory.update_config accepted from the former owner %s right after ownership went to %s" % (former, new_owner),
                          monitors.case_of(w, st2))
            break
    acc.count("worlds")


def run_shard(acc, prop, tier, seed, shard, nshards, **kw):
    srv = Server()
    try:
        n = 3 if tier == "quick" else 120
        for wi in range(n):
            from .. import core as _core
            if _core.skip_world(wi):
                continue
            run_world(acc, srv, (seed, PROP, tier, shard, wi))
        # canary: an unauthorised success must be flagged
        from ..core import Acc
        rng = sub_rng(seed, PROP, "canary", shard)
        w = World(srv, rng)
        w.key = (seed, PROP, "canary", shard, 0)
        scratch = Acc()
        # a call that really succeeds (owner's update_config) judged as if sent by a stranger-role cell
        st = w.step({"kind": "matrix", "actor": "owner", "contract": w.factory,
                     "msg": {"update_config": {"owner": None, "token_code_id": None, "pair_code_id": None}}, "funds": [], "sem": {}})
        if st.ok:
            # present it to the oracle with the owner recorded as someone else
            if not authorised(w, "owner", "owner", "trader2"):
                scratch.violation("x", {})
        acc.count("canary_fired", 1 if scratch.violations else 0)
    finally:
        srv.close()


def floors(acc, tier):
    msgs = []
    c = acc.counters
    if c.get("canary_fired", 0) < 16:
        msgs.append("canary silent")
    _w.need(acc, msgs, "cells_unauthorised", 3000)
    if c.get("positive_control_failed", 0):
        bad = sorted(k for k in c if k.startswith("positive_control_failed:"))
        msgs.append("positive controls failed: %s" % bad)
    _w.need(acc, msgs, "positive_control_ok", 200)
    _w.need(acc, msgs, "ownership_transfers", 16)
    _w.need(acc, msgs, "ownership_chain_hops", 100)
    names = set(k.split("|")[1] for k in acc.classes)
    want = {"factory.update_config", "factory.create_pair", "factory.add_native_token_decimals", "factory.migrate_pair",
            "pair.update_native_token_decimals", "pair.receive_withdraw", "pair.receive_swap",
            "router.execute_swap_operation", "router.assert_minimum_receive"}
    if not want <= names:
        msgs.append("entry points never attempted: %s" % sorted(want - names))
    for n_ in want:
        if not any(k.split("|")[1] == n_ and k.split("|")[2] == "positive_control" and k.endswith("|ok") for k in acc.classes) and \
           n_ not in ("router.execute_swap_operation", "router.assert_minimum_receive"):
            msgs.append("no successful positive control for %s" % n_)
    if not any(k.split("|")[1] == "router.internal_messages" for k in acc.classes):
        msgs.append("no successful route (router self-calls) as positive control")
    return msgs


RULE = ("per sampled world state (after a seeded 20-70 step history) and per phase (before / after ownership transfer) the finite matrix "
        "of 9 privileged/internal entry points x about 12-15 caller roles is walked exhaustively by direct calls (contracts impersonated as "
        "senders), plus hooks delivered by real cw20 Sends from the rogue token, a foreign token, the pair's asset tokens (withdraw hook) and the "
        "LP token (swap hook); positive controls for every entry point. Class = (phase, entry point, caller role, direct/real_send, "
        "authorised?, outcome); exhaustive over the matrix for each sampled state, sampled over states.")


def main(tier, seed):
    run_check(PROP, "mon.props.c14", tier, seed, floors, RULE, _w.ASSUME_WORLD +
              ["impersonating a contract address as sender models a call that contract could make; the simulator allows any sender"])
