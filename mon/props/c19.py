"""C19 — pair listing pagination is complete and duplicate-free.

Registry worlds of 0..40 pairs (prefix-sharing denom families, cw20s, mixed kinds) x page size in {absent, 1..40}: the grid is walked
exhaustively per world. Following start_after = last returned pair until an empty page must visit exactly the created set, each pair
once; every page <= 30 and <= requested; absent => <= 10 (and equal to limit 10); a cursor given in either asset order continues from
the same place."""
from ..core import Server, sub_rng, run_check, Acc, HarnessFault
from ..regworld import RegWorld, info_to_asset
from . import _w

PROP = "C19"


def walk(rw, limit, flip, rng=None):
    """returns (list of pages, problem or None)"""
    pages, cursor = [], None
    for _ in range(400):
        cur = cursor
        if cur is not None and flip:
            cur = [cur[1], cur[0]]
        r = rw.pairs_page(cur, limit)
        if r["r"] != "ok":
            return pages, "page query failed: %s" % r.get("e", "")[:120]
        page = r["v"]["pairs"]
        if not page:
            return pages, None
        pages.append(page)
        cursor = [info_to_asset(i) for i in page[-1]["asset_infos"]]
    return pages, "walk did not end within 400 pages"


def judge_walk(created, pages, limit):
    probs = []
    seen = []
    for pg in pages:
        cap = 30 if limit is None else min(limit, 30)
        if limit is None:
            cap = 10
        if len(pg) > cap:
            probs.append("page of %d entries exceeds %s" % (len(pg), "default 10" if limit is None else "min(limit,30)=%d" % cap))
        for p in pg:
            seen.append(frozenset(info_to_asset(i) for i in p["asset_infos"]))
    dup = len(seen) - len(set(seen))
    if dup:
        probs.append("%d pairs visited more than once" % dup)
    missing = set(created) - set(seen)
    extra = set(seen) - set(created)
    if missing:
        probs.append("%d registered pairs never visited, e.g. %s" % (len(missing), sorted(a[1] for a in next(iter(missing)))))
    if extra:
        probs.append("%d listed pairs were never created" % len(extra))
    return probs


def run_registry(acc, srv, key, n_pairs, tier):
    rng = sub_rng(*key)
    rw = RegWorld(srv, rng, n_families=rng.choice([2, 3, 4]))
    A = [a for a in rw.assets() if rw.valid(a)]
    tries = 0
    big_at = rng.randrange(0, max(1, n_pairs)) if (n_pairs >= 2 and rng.random() < 0.3) else -1
    while len(rw.model) < n_pairs and tries < n_pairs * 6:
        tries += 1
        a0, a1 = rng.sample(A, 2)
        if frozenset([a0, a1]) in rw.model:
            continue
        # requirement whitelists are stored as given (any strings): they must not matter for listing
        wl = rng.choice([[], [], ["owner"], ["lp1", "lp2"], ["LP1"], ["ab"], ["AURA1UH24G2LC8HVVKAAF7AWZ25LRH5FPTTHU2DHQ0N"], ["owner", "Xy"]])
        if big_at == len(rw.model):
            # one record far larger than all the others (a whitelist of 1600 well-formed addresses, > 64 KiB of JSON)
            wl = ["aura1%038d" % i for i in range(1600)]
            acc.count("pairs_with_huge_whitelist")
        resp, rec = rw.create(a0, a1, None, wl, (0, 0))
        if resp["r"] == "ok":
            rw.model[frozenset([a0, a1])] = rec
            rw.order.append(frozenset([a0, a1]))
        if rng.random() < 0.06:
            rw.admin_noise(rng, acc)
    if rng.random() < 0.6:
        # administrative actions between registration and listing (the factory's own migration among them)
        for _ in range(rng.choice([1, 2, 3])):
            rw.admin_noise(rng, acc, kind=rng.choice(["migrate_factory", "migrate_factory", "migrate_pair", "update_config_code"]))
        if rw.model and rng.random() < 0.5:
            rw.break_pair(rng, acc)     # one listed pair no longer answers pair queries (migrated to foreign code by mistake)
    created = list(rw.model)
    limits = [None] + list(range(1, 41)) + [64, 255, 256, 257, 512, 1025, 65536, 1 << 31, (1 << 32) - 1]   # any page size
    for limit in limits:
        for flip in (False, True):
            pages, prob = walk(rw, limit, flip)
            acc.ev()
            acc.cls("n%d" % len(created), "L" + str(limit), "flip" if flip else "asis", "pages%d" % min(len(pages), 41))
            acc.count("walks")
            probs = ([prob] if prob else []) + judge_walk(created, pages, limit)
            case = {"kind": "registry", "world_key": list(key), "pairs": len(created), "limit": limit, "cursor_flipped": flip,
                    "page_sizes": [len(p) for p in pages][:50]}
            if probs:
                acc.violation("walk of %d pairs with limit=%s%s: %s" % (len(created), limit, " (cursor in reversed asset order)" if flip else "",
                                                                       "; ".join(probs[:3])), case)
            elif len(acc.samples) < acc.max_samples and len(created) > 10:
                acc.sample(case)
    # the cap holds for ANY limit value, also ones that are not page sizes of a walk (0, huge)
    cursors = [None] + [list(rw.model[k]["assets"]) for k in rng.sample(created, min(2, len(created)))]
    for lim in (0, 31, 64, 255, 256, 65536, (1 << 31) - 1, (1 << 32) - 1):  # (0 is not a page size: only the cap is checked for it)
        for cur in cursors:
            r = rw.pairs_page(cur, lim)
            acc.ev()
            acc.cls("cap", "L%d" % lim, r["r"])
            if r["r"] == "ok" and len(r["v"]["pairs"]) > 30:
                acc.violation("a page of %d entries was returned for limit=%d" % (len(r["v"]["pairs"]), lim),
                              {"kind": "registry", "world_key": list(key), "pairs": len(created), "limit": lim})
    # default == 10, cap == 30, first pages
    p_none = rw.pairs_page(None, None)
    p_10 = rw.pairs_page(None, 10)
    p_30 = rw.pairs_page(None, 30)
    p_40 = rw.pairs_page(None, 40)
    acc.ev()
    if p_none["r"] == "ok" and p_10["r"] == "ok" and p_none["v"] != p_10["v"]:
        acc.violation("absent limit does not behave as limit 10 (%d vs %d entries)" % (len(p_none["v"]["pairs"]), len(p_10["v"]["pairs"])),
                      {"kind": "registry", "world_key": list(key), "pairs": len(created)})
    if p_30["r"] == "ok" and p_40["r"] == "ok" and p_30["v"] != p_40["v"]:
        acc.violation("limit 40 does not behave as the cap 30", {"kind": "registry", "world_key": list(key), "pairs": len(created)})
    if len(created) > 10:
        acc.count("registries_over_10")
    if len(created) > 30:
        acc.count("registries_over_30")
    acc.count("registries")
    return rw, created


def run_shard(acc, prop, tier, seed, shard, nshards, **kw):
    srv = Server()
    try:
        sizes = [0, 1, 9, 10, 11, 29, 30, 31, 40] if tier == "quick" else list(range(0, 41))
        n = 5 if tier == "quick" else 400
        for wi in range(n):
            from .. import core as _core
            if _core.skip_world(wi):
                continue
            rng = sub_rng("n", seed, PROP, tier, shard, wi)
            size = sizes[(shard + wi * nshards) % len(sizes)] if tier == "quick" else rng.choice(sizes)
            rw, created = run_registry(acc, srv, (seed, PROP, tier, shard, wi), size, tier)
        # canary on real pages: a duplicated entry and a dropped entry must be flagged
        rw, created = run_registry(Acc(), srv, (seed, PROP, "canary", shard, 0), 12, tier)
        pages, _ = walk(rw, 5, False)
        if pages and len(pages) > 1:
            dup = [list(p) for p in pages]
            dup[1] = [dup[0][-1]] + dup[1]
            if judge_walk(created, dup, 6):
                acc.count("canary_fired")
            drop = [list(p) for p in pages]
            drop[1] = drop[1][1:]
            if judge_walk(created, drop, 5):
                acc.count("canary_fired")
            big = [sum(pages, [])]
            if judge_walk(created, big, None):
                acc.count("canary_fired")
    finally:
        srv.close()


def floors(acc, tier):
    msgs = []
    if acc.counters.get("canary_fired", 0) < 3 * 16:
        msgs.append("canary silent (%d)" % acc.counters.get("canary_fired", 0))
    _w.need(acc, msgs, "walks", 2000)
    _w.need(acc, msgs, "registries_over_10", 10)
    _w.need(acc, msgs, "registries_over_30", 4)
    _w.need(acc, msgs, "pairs_with_huge_whitelist", 6)
    _w.need(acc, msgs, "admin_noise_migrate_factory_ok", 20)
    _w.need(acc, msgs, "admin_noise_break_pair_ok", 8)
    return msgs


RULE = ("per registry (sizes 0..40; quick: {0,1,9,10,11,29,30,31,40}) the whole grid page size {absent, 1..40} x cursor orientation {as returned, "
        "reversed asset order} is walked EXHAUSTIVELY, each walk following start_after = last returned pair to the empty page; plus absent==10 and "
        "40==30 first-page equalities. Asset sets come from prefix-sharing denom families, cw20 addresses and mixed kinds. "
        "Class = (registry size, page size, cursor orientation, number of pages).")


def main(tier, seed):
    run_check(PROP, "mon.props.c19", tier, seed, floors, RULE,
              ["cw-multi-test 0.16.1 + cw20-base 1.0.0 stand in for the chain", "the set of successfully created pairs is the reference"])
