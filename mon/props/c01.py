"""C01 — a swap never lowers the reserve product nor empties a reserve.

Function level: compute_swap(x,y,a,c) -> n must satisfy n*(x+a) <= y*a (and hence y-n > 0 when x > 0).
System level: every successful swap (direct, hook, router hop) in world histories; product and ask reserve
from ledger snapshots."""
from .. import gen, known, swapgen, monitors
from ..core import D, M128, Server, to_limbs, sub_rng, run_check
from ..wrun import run_worlds

PROP = "C01"
WEIGHTS = {"swap": 40, "swap_window": 14, "route": 16, "provide": 8, "withdraw": 4, "donate": 4,
           "swap_malformed": 10, "provide_malformed": 0, "unauth": 0, "transfer": 0, "lp_transfer": 0,
           "route_bad": 1, "intent": 2}


def judge_fn(x, y, a, c, resp):
    """returns (verdict, detail): verdict in ok | abort | known | violation"""
    if resp["r"] != "ok":
        return "abort", resp.get("e", "")[:60]
    n, spread, comm = (int(v) for v in resp["v"])
    if n * (x + a) <= y * a and (y - n > 0 or y == 0):
        return "ok", None
    if known.c01_window(x, y, a, c, gross=n + comm, comm=comm):
        return "known", "n=%d > g=%d*%d/%d" % (n, y, a, x + a)
    if n * (x + a) <= y * a:
        return "violation", "returned %d empties the ask reserve %d (offer_pool=%d, offer=%d, commission %d)" % (n, y, x, a, comm)
    return "violation", "returned %d exceeds ask*offer/(offer_pool+offer) = %d*%d/%d (commission %d)" % (n, y, a, x + a, comm)


def fn_leg(acc, srv, rng, n_cases):
    from ..core import dropped_groups
    if "fn_formulas" in dropped_groups():
        acc.count("fn_leg_skipped_adapter_built_without_fn_formulas")
        return
    batch = []
    for _ in range(n_cases):
        x, y, a, tag = swapgen.case(rng)
        c = swapgen.rate_for(rng, x, y, a)
        batch.append((x, y, a, c, tag))
        if len(batch) >= 1500:
            run_batch(acc, srv, batch)
            batch = []
    if batch:
        run_batch(acc, srv, batch)


def run_batch(acc, srv, batch):
    resps = srv.calls([("compute_swap", [str(x), str(y), str(a), to_limbs(c)]) for x, y, a, c, _ in batch])
    for (x, y, a, c, tag), resp in zip(batch, resps):
        acc.ev()
        v, detail = judge_fn(x, y, a, c, resp)
        acc.cls("fn", tag, v, gen.bucket(x), gen.bucket(y), gen.bucket(a), "c" + gen.bucket(c))
        acc.count("fn_" + v)
        if tag.startswith("res_"):
            acc.count("fn_landed_" + tag)
        case = {"kind": "fn", "f": "compute_swap", "a": [str(x), str(y), str(a), to_limbs(c)],
                "x": str(x), "y": str(y), "offer": str(a), "rate_atomics": str(c), "observed": resp, "family": tag}
        if v == "violation":
            acc.violation("compute_swap(%d,%d,%d,rate=%d): %s" % (x, y, a, c, detail), case)
        elif v == "known":
            acc.known_hit("C01-window", case)
        elif len(acc.samples) < 3 and v == "ok":
            acc.sample(case)


def run_shard(acc, prop, tier, seed, shard, nshards, **kw):
    rng = sub_rng(seed, PROP, tier, shard, "fn")
    srv = Server(log=False)
    try:
        fn_leg(acc, srv, rng, 20000 if tier == "quick" else 1200000)
        canary(acc, srv)
    finally:
        srv.close()
    nw, steps = (10, (120, 220)) if tier == "quick" else (320, (120, 300))
    run_worlds(acc, PROP, tier, seed, shard, nshards, lambda w, a: [monitors.C01(w, a)], WEIGHTS, nw, steps)


def canary(acc, srv):
    from ..core import dropped_groups
    if "fn_formulas" in dropped_groups():
        return
    fired = 0
    tests = [(10 ** 6, 10 ** 6, 1000, 0), (123456789, 987654321, 55555, 3 * 10 ** 15)]
    for x, y, a, c in tests:
        resp = srv.call("compute_swap", [str(x), str(y), str(a), to_limbs(c)])
        if judge_fn(x, y, a, c, resp)[0] != "ok":
            continue
        n = int(resp["v"][0])
        g = y * a // (x + a)
        bad = dict(resp, v=[str(g + 1), resp["v"][1], "0"])
        if judge_fn(x, y, a, c, bad)[0] == "violation":
            fired += 1
    acc.count("canary_fired", fired)
    acc.count("canary_expected", len(tests))


def floors(acc, tier):
    c = acc.counters
    msgs = []
    if c.get("canary_fired", 0) != c.get("canary_expected", -1):
        msgs.append("canary silent")
    for k in swapgen.RESIDUE_KINDS:
        n = sum(v for kk, v in c.items() if kk.startswith("fn_landed_res_" + k))
        if n < (100 if tier == "quick" else 1000):
            msgs.append("residue class %s landed only %d times" % (k, n))
    for pk in ("nn", "nt", "tn", "tt"):
        n = sum(v for kk, v in c.items() if kk.startswith("sys_swaps_" + pk))
        if n < 50:
            msgs.append("only %d successful system swaps on %s pairs" % (n, pk))
    for entry in ("direct", "hook", "router_n", "router_t"):
        n = sum(v for kk, v in c.items() if kk.startswith("sys_swaps_") and kk.endswith(entry))
        if n < 30:
            msgs.append("only %d successful system swaps through entry %s" % (n, entry))
    if c.get("fn_ok", 0) < 5000:
        msgs.append("too few successful function-level evaluations")
    return msgs


RULE = ("function level: (x,y,a,c) from constructive residue families (x*y mod (x+a) steered to 0, 1, inside / on the "
        "borders of the 10^-18 truncation window, spread-division edges, x*y*D near 2^256, x*y < x+a) and "
        "magnitude-bucketed random; system level: successful swaps in seeded multi-actor world histories on all "
        "pair orientations and entry paths (direct, cw20 hook, router hops), offers constructed from observed "
        "reserves to land in the window. Class = (level, generator family or pair kind x entry, outcome, magnitude "
        "buckets); distinct_nontrivial counts distinct classes.")
ASSUME = ["exact integer cross-multiplication in Python is the reference",
          "cw-multi-test 0.16.1 + cw20-base 1.0.0 stand in for chain and tokens (honest tokens, no fee-on-transfer)",
          "known finding C01-window is matched by its exact signature only (known_findings.json)"]


def main(tier, seed):
    run_check(PROP, "mon.props.c01", tier, seed, floors, RULE, ASSUME)
