"""C18 — Decimal and integer text, JSON and width conversions are lossless.

Values: structured atomics (limb grid, 10^k +- 1, fractions with leading/trailing zeros, max) and random: to_string must be the canonical
numeral of atomics/10^18, from_str(to_string(v)) == v, JSON (the real serde-json-wasm codec via cosmwasm_std::to_vec/from_slice) round-trips.
Strings: EXHAUSTIVE over the alphabet {0,1,5,9,.} up to length 6 (19 530 strings) plus random longer numerals and non-numeral bytes:
accepted => exactly the denoted number; > 18 fractional digits => error; non-numerals => error.
Width conversions preserve the value or abort exactly when it does not fit."""
import itertools
import json
import re

from .. import gen
from ..core import D, U128, U256, M128, M256, Server, to_limbs, from_limbs, sub_rng, run_check

PROP = "C18"
NUMERAL = re.compile(r"^[0-9]*(\.[0-9]*)?$")


def dec_text(atomics):
    w, f = divmod(atomics, D)
    if f == 0:
        return str(w)
    return "%d.%s" % (w, ("%018d" % f).rstrip("0"))


def denoted_decimal(s):
    """atomics denoted by a numeral string under the digit-run reading (an empty run is 0); None if it denotes no
    representable Decimal256 (not a numeral, > 18 fractional digits, or out of range)."""
    if not NUMERAL.match(s):
        return None
    w, _, f = s.partition(".")
    if len(f) > 18:
        return None
    v = int(w or "0") * D + int((f + "0" * 18)[:18] or "0")
    return v if v < U256 else None


def dec_values(rng, n):
    out = []
    for _ in range(n):
        r = rng.random()
        if r < 0.2:
            v = gen.limb_grid_value(rng)
        elif r < 0.35:
            v = gen.pow10_near(rng)
        elif r < 0.5:
            # fractions with leading / trailing zeros
            whole = rng.choice([0, 1, gen.rand_bits(rng, 190)])
            k = rng.randrange(0, 18)
            frac = rng.choice([1, 5, 9, 10 ** rng.randrange(0, 18), rng.randrange(1, 10 ** rng.randrange(1, 19))]) * 10 ** k % D
            v = (whole * D + frac) % U256
        elif r < 0.58:
            v = rng.choice([0, 1, D - 1, D, D + 1, M256, M256 - 1, M128, U128, (M256 // D) * D, (M256 // D) * D - 1, 10 * D, D // 10])
        else:
            v = gen.u256(rng)[0]
        out.append(v)
    return out


def value_leg(acc, srv, rng, n):
    vals = dec_values(rng, n)
    reqs = []
    for v in vals:
        reqs += [("d_to_string", [to_limbs(v)]), ("d_json_ser", [to_limbs(v)]), ("u_to_string", [to_limbs(v)]),
                 ("u_json_ser", [to_limbs(v)]), ("u_into_string", [to_limbs(v)])]
    res = srv.calls(reqs)
    second = []
    for i, v in enumerate(vals):
        dt, dj, ut, uj, us = res[5 * i:5 * i + 5]
        acc.ev()
        probs = []
        exp_d, exp_u = dec_text(v), str(v)
        if dt["r"] != "ok" or dt["v"] != exp_d:
            probs.append("Decimal256 renders as %r, canonical numeral is %r" % (dt.get("v", dt.get("e")), exp_d))
        if dj["r"] != "ok" or dj["v"] != json.dumps(exp_d):
            probs.append("Decimal256 JSON is %r, expected %r" % (dj.get("v", dj.get("e")), json.dumps(exp_d)))
        if ut["r"] != "ok" or ut["v"] != exp_u:
            probs.append("Uint256 renders as %r, expected %r" % (ut.get("v", ut.get("e")), exp_u))
        if uj["r"] != "ok" or uj["v"] != json.dumps(exp_u):
            probs.append("Uint256 JSON is %r" % (uj.get("v", uj.get("e")),))
        if us["r"] != "ok" or us["v"] != exp_u:
            probs.append("String::from(Uint256) is %r" % (us.get("v", us.get("e")),))
        frac = v % D
        acc.cls("value", gen.bucket(v), "frac0" if frac == 0 else ("lead0" if frac < D // 10 else "nolead") + ("_trail0" if frac % 10 == 0 else ""))
        if probs:
            acc.violation("value %d: %s" % (v, "; ".join(probs[:3])), {"kind": "fn", "f": "d_to_string", "a": [to_limbs(v)], "value": str(v)})
            continue
        # parse back what was rendered (text and JSON)
        second.append((v, [("d_from_str", [dt["v"]]), ("d_json_de", [dj["v"]]), ("u_from_str", [ut["v"]]), ("u_json_de", [uj["v"]]),
                           ("u_try_from_str", [ut["v"]])]))
    flat = [rq for _, rqs in second for rq in rqs]
    res2 = srv.calls(flat)
    for i, (v, rqs) in enumerate(second):
        for (f, a), r in zip(rqs, res2[5 * i:5 * i + 5]):
            acc.ev()
            if r["r"] != "ok" or from_limbs(r["v"]) != v:
                acc.violation("%s(%r) = %r, expected the original value %d" % (f, a[0], r.get("v", r.get("e")), v),
                              {"kind": "fn", "f": f, "a": a, "value": str(v)})
        acc.count("roundtrips")
    if vals and len(acc.samples) < 2:
        acc.sample({"value_atomics": str(vals[0]), "rendered": dec_text(vals[0])})


def judge_dec_string(s, resp):
    want = denoted_decimal(s)
    if resp["r"] == "ok":
        got = from_limbs(resp["v"])
        if want is None:
            return "accepted %r as %d although it denotes no Decimal256 (not a numeral / >18 fractional digits / out of range)" % (s, got)
        if got != want:
            return "parsed %r as %d atomics, it denotes %d" % (s, got, want)
    return None


def judge_uint_string(s, resp):
    ok_num = re.match(r"^[0-9]*$", s) is not None
    if resp["r"] == "ok":
        got = from_limbs(resp["v"])
        if not ok_num:
            return "accepted non-numeral %r as %d" % (s, got)
        want = int(s or "0")
        if want >= U256:
            return "accepted out-of-range %r" % s
        if got != want:
            return "parsed %r as %d" % (s, got)
    return None


def string_cases(acc, srv, strings, tag):
    reqs = []
    for s in strings:
        reqs += [("d_from_str", [s]), ("d_json_de", [json.dumps(s)]), ("u_from_str", [s]), ("u_json_de", [json.dumps(s)])]
    res = srv.calls(reqs)
    for i, s in enumerate(strings):
        d1, d2, u1, u2 = res[4 * i:4 * i + 4]
        acc.ev()
        want = denoted_decimal(s)
        lenient = want is not None and (s == "" or s.startswith(".") or s.endswith("."))
        acc.cls("string", tag, "len%d" % min(len(s), 90), d1["r"], "numeral" if want is not None else "nonnumeral",
                "dots%d" % min(s.count("."), 3))
        if d1["r"] == "ok":
            acc.count("strings_accepted")
            if lenient:
                acc.count("lenient_accepts")
        else:
            acc.count("strings_rejected")
            if want is not None and not lenient:
                acc.count("wellformed_numeral_rejected")
        if want is not None and not lenient:
            acc.count("wellformed_numerals")
        for name, r, jf in (("Decimal256::from_str", d1, judge_dec_string), ("Decimal256 JSON decode", d2, judge_dec_string),
                            ("Uint256::from_str", u1, judge_uint_string), ("Uint256 JSON decode", u2, judge_uint_string)):
            bad = jf(s, r)
            if bad:
                acc.violation("%s: %s" % (name, bad), {"kind": "fn", "f": "d_from_str", "a": [s], "string": s, "observed": r})
        if d1["r"] == "ok" and d2["r"] != "ok" or d1["r"] != "ok" and d2["r"] == "ok":
            acc.violation("text and JSON decoding disagree on %r" % s, {"kind": "fn", "f": "d_json_de", "a": [json.dumps(s)]})


def random_strings(rng, n):
    out = []
    for _ in range(n):
        r = rng.random()
        if r < 0.04:
            # very long fractional parts (mostly zeros so that the digits still fit 256 bits): lengths around 256, 512, 65536
            L = rng.choice([255, 256, 257, 258, 260, 270, 274, 275, 300, 511, 512, 513, 520, 530, 768, 1024, 65536, 65537, 65540])
            tail = rng.choice(["", "5", "05", "003", "1", "9"])
            out.append(rng.choice(["0", "1", "12"]) + "." + "0" * max(0, L - len(tail)) + tail)
            continue
        if r < 0.2:
            # 17..20 fractional digits
            out.append("%d.%s" % (rng.getrandbits(rng.randrange(1, 100)), "".join(rng.choice("0123456789") for _ in range(rng.choice([17, 18, 18, 19, 19, 20, 25])))))
        elif r < 0.4:
            # integers around 2^256/10^18 and 2^256
            base = rng.choice([M256 // D, M256, U256, M256 // D + 1, 10 ** 59, 10 ** 60, 10 ** 77, 10 ** 78])
            out.append(str(max(0, base + rng.randrange(-3, 4))) + rng.choice(["", "", ".0", ".5", ".584007913129639935", ".584007913129639936", ".999999999999999999"]))
        elif r < 0.5:
            out.append("0" * rng.randrange(1, 30) + str(rng.getrandbits(64)) + rng.choice(["", ".5", ".05", ".500"]))
        elif r < 0.7:
            s = "%d.%d" % (rng.getrandbits(40), rng.getrandbits(40))
            pos = rng.randrange(0, len(s) + 1)
            out.append(s[:pos] + rng.choice(["-", "+", "e", "E", " ", "x", ",", "_", "٣", "１", "\t", "/", ":", "0x", "..", "²"]) + s[pos:])
        elif r < 0.8:
            out.append(rng.choice(["-1", "+1", "1e5", " 1", "1 ", "1.2.3", "..", "1..2", "abc", "0x10", "NaN", "inf", "1,5", "١٢٣", "1_000"]))
        else:
            out.append("%d.%s" % (rng.getrandbits(rng.randrange(1, 190)), ("%018d" % rng.randrange(0, D))[:rng.randrange(1, 19)]))
    return out


def width_leg(acc, srv, rng, n):
    cases = []
    for _ in range(n):
        v = rng.choice([gen.u256(rng)[0], gen.u128(rng)[0], M128, U128, U128 + 1, M128 - 1, rng.getrandbits(129), (1 << 192) + 5, 1 << 128 << 64])
        cases.append(v)
    reqs = []
    for v in cases:
        reqs += [("u_to_u128", [to_limbs(v)]), ("u_to_uint128", [to_limbs(v)]), ("d_to_decimal", [to_limbs(v)]),
                 ("u_from_u128", [str(v & M128)]), ("u_from_uint128", [str(v & M128)]), ("d_from_decimal", [str(v & M128)])]
    res = srv.calls(reqs)
    for i, v in enumerate(cases):
        a, b, c, d, e, f = res[6 * i:6 * i + 6]
        acc.ev()
        fits = v < U128
        acc.cls("width", "fits" if fits else "toobig", gen.bucket(v))
        acc.count("width_cases")
        for name, r in (("Uint256->u128", a), ("Uint256->Uint128", b), ("Decimal256->Decimal", c)):
            if fits:
                if r["r"] != "ok" or int(r["v"]) != v:
                    acc.violation("%s of %d gives %r" % (name, v, r.get("v", r.get("e"))), {"kind": "fn", "f": "u_to_u128", "a": [to_limbs(v)]})
            elif r["r"] == "ok":
                acc.violation("%s of %d (does not fit) returned %r instead of aborting" % (name, v, r["v"]),
                              {"kind": "fn", "f": "u_to_u128", "a": [to_limbs(v)]})
        lo = v & M128
        for name, r in (("u128->Uint256", d), ("Uint128->Uint256", e), ("Decimal->Decimal256", f)):
            if r["r"] != "ok" or from_limbs(r["v"]) != lo:
                acc.violation("%s of %d gives %r" % (name, lo, r.get("v", r.get("e"))), {"kind": "fn", "f": "u_from_u128", "a": [str(lo)]})


def fmt_leg(acc, srv, rng, n):
    """the same Display impls driven through format specifications ({:.18}, {:>40}, {:<30.24}, ...): whatever a specification
    adds (padding, trailing zeros), the text without the padding must still be a numeral of exactly the value (a precision of
    18 or more cannot legitimately lose a digit of an 18-digit fraction)."""
    import re
    vals = dec_values(rng, n)
    reqs, specs = [], []
    for v in vals:
        prec = rng.choice([None, 18, 18, 19, 24, 40])
        width = rng.choice([None, None, 0, 10, 18, 30, 60, 100])
        left = rng.random() < 0.3
        specs.append((prec, width, left))
        reqs += [("d_fmt", [to_limbs(v), prec, width, left]), ("u_fmt", [to_limbs(v), rng.choice([None, 0, 5, 18]), width])]
    res = srv.calls(reqs)
    for i, (v, spec) in enumerate(zip(vals, specs)):
        rd, ru = res[2 * i], res[2 * i + 1]
        acc.ev()
        acc.count("fmt_cases")
        acc.cls("fmt", "p%s" % spec[0], "w%s" % spec[1], "L" if spec[2] else "R", gen.bucket(v))
        probs = []
        if rd["r"] != "ok":
            probs.append("formatting a Decimal256 aborted: %s" % rd.get("e", "")[:80])
        else:
            t = rd["v"].strip(" ")
            m = re.match(r"^(\d+)(?:\.(\d+))?$", t)
            if not m:
                probs.append("Decimal256 formatted with %s is %r: not a numeral" % (spec, rd["v"]))
            else:
                frac = m.group(2) or ""
                got = int(m.group(1)) * D + int((frac + "0" * 18)[:18]) if not frac[18:].strip("0") else None
                if got != v:
                    probs.append("Decimal256 %s formatted with (precision, width, left)=%s is %r" % (dec_text(v), spec, rd["v"]))
        if ru["r"] != "ok" or not ru["v"].strip(" ").isdigit() or int(ru["v"].strip(" ")) != v:
            probs.append("Uint256 %d formatted with a specification is %r" % (v, ru.get("v", ru.get("e"))))
        if probs:
            acc.violation("; ".join(probs[:2]), {"kind": "fn", "f": "d_fmt", "a": reqs[2 * i][1], "value": str(v)})


def swap_narrowing_leg(acc, srv, rng, n):
    """256 -> 128-bit hand-back inside compute_swap: when the exact spread floor(a*y/x) - gross does not fit 128 bits the
    call must abort; whatever is returned must be the exact value (no silent cap or truncation)."""
    from ..core import dropped_groups
    if "fn_formulas" in dropped_groups():
        acc.count("fn_leg_skipped_adapter_built_without_fn_formulas")
        return
    cases = []
    for _ in range(n):
        x = rng.randrange(1, 1 << rng.choice([1, 4, 8, 12, 16, 20]))
        y = rng.getrandbits(rng.choice([90, 100, 110, 120, 127])) | 1
        a = rng.getrandbits(rng.choice([40, 60, 70, 80, 90])) | 1
        if a * y * D >= U256 or x * y * D >= U256:
            a = max(1, (U256 // (D * y)) >> rng.randrange(1, 8))
        cases.append((x, y, a, rng.choice([0, 1, 3 * 10 ** 15, D])))
    resps = srv.calls([("compute_swap", [str(x), str(y), str(a), to_limbs(c)]) for x, y, a, c in cases])
    for (x, y, a, c), r in zip(cases, resps):
        acc.ev()
        fits = (a * y // x) - min(y, (y * a) // (x + a) + 1) < U128
        acc.cls("swap_narrowing", "fits" if fits else "toobig", r["r"])
        acc.count("swap_narrowing_cases")
        if r["r"] == "ok":
            n_, sp, cm = (int(v) for v in r["v"])
            if n_ + cm + sp != (a * y) // x:
                acc.violation("compute_swap(%d,%d,%d,c=%d) handed back spread %d, but return+commission+spread must be floor(a*y/x) = %d: "
                              "a 256->128-bit narrowing lost the value instead of aborting" % (x, y, a, c, sp, (a * y) // x),
                              {"kind": "fn", "f": "compute_swap", "a": [str(x), str(y), str(a), to_limbs(c)], "observed": r})


def run_shard(acc, prop, tier, seed, shard, nshards, **kw):
    rng = sub_rng(seed, PROP, tier, shard)
    srv = Server(log=False)
    try:
        n = 6000 if tier == "quick" else 150000
        for _ in range(max(1, n // 2000)):
            value_leg(acc, srv, rng, 2000)
        # exhaustive strings over {0,1,5,9,.} up to length 6, sharded
        alphabet = "0159."
        allstr = [""]
        for L in range(1, 7):
            allstr += ["".join(t) for t in itertools.product(alphabet, repeat=L)]
        mine = allstr[shard::nshards]
        for i in range(0, len(mine), 1000):
            string_cases(acc, srv, mine[i:i + 1000], "exhaustive")
        acc.count("exhaustive_strings", len(mine))
        rs = random_strings(rng, 3000 if tier == "quick" else 120000)
        for i in range(0, len(rs), 1000):
            string_cases(acc, srv, rs[i:i + 1000], "random")
        width_leg(acc, srv, rng, 3000 if tier == "quick" else 100000)
        swap_narrowing_leg(acc, srv, rng, 2000 if tier == "quick" else 60000)
        fmt_leg(acc, srv, rng, 1500 if tier == "quick" else 40000)
        # non-string JSON must not decode
        for js in ("5", "1.5", "null", "[\"1\"]", "{\"a\":1}", "true"):
            for f in ("d_json_de", "u_json_de"):
                r = srv.call(f, [js])
                acc.ev()
                acc.cls("json_nonstring", f, r["r"])
                if r["r"] == "ok":
                    acc.violation("%s accepted non-string JSON %s" % (f, js), {"kind": "fn", "f": f, "a": [js]})
        # canary
        fired = 0
        if judge_dec_string("1.5", {"r": "ok", "v": to_limbs(15 * D // 10 + 1)}):
            fired += 1
        if judge_dec_string("1.0000000000000000001", {"r": "ok", "v": to_limbs(D)}):
            fired += 1
        if judge_dec_string("1.2.3", {"r": "ok", "v": to_limbs(D)}):
            fired += 1
        if judge_uint_string("12a", {"r": "ok", "v": to_limbs(12)}):
            fired += 1
        acc.count("canary_fired", fired)
    finally:
        srv.close()


def floors(acc, tier):
    msgs = []
    c = acc.counters
    if c.get("canary_fired", 0) != 4 * 16:
        msgs.append("canary silent")
    if c.get("exhaustive_strings", 0) != 19531:
        msgs.append("exhaustive string space not fully walked (%d/19531)" % c.get("exhaustive_strings", 0))
    from . import _w
    _w.need(acc, msgs, "roundtrips", 50000)
    _w.need(acc, msgs, "width_cases", 20000)
    _w.need(acc, msgs, "fmt_cases", 15000)
    if c.get("wellformed_numerals", 0) and c.get("wellformed_numeral_rejected", 0) * 4 > c.get("wellformed_numerals", 0):
        msgs.append("more than a quarter of well-formed in-range numerals were rejected (%d/%d): acceptance path not exercised"
                    % (c.get("wellformed_numeral_rejected", 0), c.get("wellformed_numerals", 0)))
    return msgs


RULE = ("values: 256-bit atomics from limb grid, 10^k+-1, fractions with leading/trailing zeros, maxima, random -> to_string/JSON must be the "
        "canonical numeral, parsing it back (text, JSON, try_from) must give the identical value; strings: the full space over {0,1,5,9,.} up to "
        "length 6 (19 531 incl. empty; exhaustive: true for that space) plus random numerals with 17-25 fractional digits, integers around "
        "2^256/10^18 and 2^256, leading zeros, and numerals with an injected non-numeral byte (-,+,e,space,unicode digits,...); width conversions "
        "around 2^128; the Display impls driven through format specifications (precision 18..40, widths, alignment). Class = (leg, family/length, outcome, numeral?, dots). Lenient accepts ('', '.', '1.', '.5' read as digit runs) are counted, "
        "not alarmed, as long as the value is the denoted one.")


def main(tier, seed):
    run_check(PROP, "mon.props.c18", tier, seed, floors, RULE,
              ["Python int / str are the reference for numerals", "operands and results cross the adapter boundary as limbs, not through the codec under test",
               "JSON codec is the real serde-json-wasm path (cosmwasm_std::to_vec / from_slice)"], post_fn=post)


def post(acc, tier, seed):
    if tier == "thorough":
        from .. import sanitize
        sanitize.memcheck_leg(acc, PROP, seed)
