"""C12 — quotes are faithful to execution.

Forward: the pair's Simulation taken in the same state must equal the attributes and ledger deltas of the swap that follows.
Reverse: compute_offer_amount / ReverseSimulation against the documented closed form with its rounding bound.
Router: SimulateSwapOperations / ReverseSimulateSwapOperations must equal the Python fold of the pair queries along the route."""
from .. import gen, monitors
from ..core import D, M128, Server, to_limbs, sub_rng, run_check
from ..world import attr_events
from . import _w

PROP = "C12"
WEIGHTS = {"swap": 46, "swap_window": 4, "route": 10, "provide": 10, "withdraw": 6, "donate": 8, "swap_malformed": 10,
           "provide_malformed": 0, "unauth": 0, "transfer": 0, "lp_transfer": 0, "lp_burn": 1, "route_bad": 0,
           "intent": 4, "add_decimals": 0}


def reverse_verdict(x, y, ask, c, resp):
    """offer must satisfy L < offer <= F whenever y - ask/(1-c) > 0 (closed form F = x*y/(y-A) - x)."""
    if c >= D:
        return "nocf", None
    # A = ask*D/(D-c);  y - A > 0  <=>  y*(D-c) > ask*D
    if not (y * (D - c) > ask * D):
        return "nocf", None
    if resp["r"] != "ok":
        return "abort", None
    offer = int(resp["v"][0])
    om = D - c
    # offer <= F  <=>  (offer + x) * (y - A) <= x*y  <=> (offer+x)*(y*om - ask*D) <= x*y*om
    if (offer + x) * (y * om - ask * D) > x * y * om:
        return "violation", "offer %d above the closed form x*y/(y-ask/(1-c)) - x" % offer
    # offer > L = x*y/(y - A + eps) - x - 1, eps = ask/D + 1:
    #   (offer + x + 1) * (y - A + eps) > x*y ; scale by om*D: (y - A + eps)*om*D = y*om*D - ask*D*D + (ask + D)*om
    den = y * om * D - ask * D * D + (ask + D) * om
    if not ((offer + x + 1) * den > x * y * om * D):
        return "violation", "offer %d below the closed form by more than its rounding bound" % offer
    return "ok", None


def rev_case(rng):
    sb = rng.choice([8, 16, 24, 32, 40, 50, 60, 64, 70, 80, 90, 97])
    x = gen.amount128(rng, sb)
    y = gen.amount128(rng, max(2, sb + rng.randrange(-20, 21)) if sb < 90 else sb)
    c = gen.rate(rng)
    r = rng.random()
    if r < 0.5:
        ask = max(1, int(y * 2 ** rng.uniform(-20, -0.01)))
    elif r < 0.7 and c < D:
        # ask/(1-c) close to y
        ask = max(1, y * (D - c) // D + rng.randrange(-3, 4))
    elif r < 0.8:
        ask = rng.choice([1, 2, y, y - 1 if y > 1 else 1, y + 1])
    else:
        ask = gen.amount128(rng)
    return x, y, min(ask, M128), c


def fn_leg(acc, srv, rng, n):
    from ..core import dropped_groups
    if "fn_formulas" in dropped_groups():
        acc.count("fn_leg_skipped_adapter_built_without_fn_formulas")
        return
    cases = [rev_case(rng) for _ in range(n)]
    reqs = [("compute_offer_amount", [str(x), str(y), str(a), to_limbs(c)]) for x, y, a, c in cases]
    for (x, y, ask, c), rq, resp in zip(cases, reqs, srv.calls(reqs)):
        acc.ev()
        v, detail = reverse_verdict(x, y, ask, c, resp)
        acc.cls("rev_fn", v, resp["r"], gen.bucket(x), gen.bucket(y), gen.bucket(ask), "c" + gen.bucket(c))
        acc.count("rev_fn_" + v)
        case = {"kind": "fn", "f": "compute_offer_amount", "a": rq[1], "observed": resp}
        if v == "violation":
            acc.violation("compute_offer_amount(x=%d,y=%d,ask=%d,c=%d): %s" % (x, y, ask, c, detail), case)
        elif v == "ok" and len(acc.samples) < 2:
            acc.sample(case)


class QueryFold(monitors.Monitor):
    """pair ReverseSimulation against the closed form on live reserves + router forward/reverse sims against the fold
    of pair queries (queried in a quiescent state after a step)."""

    def __init__(self, world, acc, gen_):
        monitors.Monitor.__init__(self, world, acc)
        self.g = gen_
        self.n = 0

    def on_step(self, st):
        self.n += 1
        if self.n % 5:
            return
        w, acc, rng = self.w, self.acc, self.w.rng
        led = w.ledger
        # pair reverse simulation
        p = rng.choice(w.pairs)
        i = rng.randrange(2)
        ask_asset = p.assets[i]
        y, x = p.reserves(led)[i], p.reserves(led)[1 - i]
        if y > 0:
            ask = max(1, int(y * 2 ** rng.uniform(-16, -0.01)))
            resp = w.q(*w.q_rsim(p, ask_asset, ask))
            acc.ev()
            if resp["r"] == "ok":
                rr = {"r": "ok", "v": [resp["v"]["offer_amount"], resp["v"]["spread_amount"], resp["v"]["commission_amount"]]}
            else:
                rr = {"r": "panic"}
            v, detail = reverse_verdict(x, y, ask, p.rate, rr)
            acc.cls("rev_sys", p.kind(), "dir%d" % i, v)
            acc.count("rev_sys_" + v)
            if v == "violation":
                acc.violation("ReverseSimulation on %s (x=%d,y=%d,ask=%d): %s" % (p.addr, x, y, ask, detail),
                              monitors.case_of(w, st, query="reverse_simulation"))
        # router fold
        hops = rng.choice(self.g.paths())
        first = w.pair_for(*hops[0])
        xin = first.reserves(led)[first.idx(hops[0][0])]
        amount = max(1, int(max(1, xin) * 2 ** rng.uniform(-10, 0.5)))
        rq = w.q(*w.q_route_sim(hops, amount))
        cur, failed = amount, False
        for (o, a) in hops:
            pr = w.pair_for(o, a)
            r = w.q(*w.q_sim(pr, o, cur))
            if r["r"] != "ok":
                failed = True
                break
            cur = int(r["v"]["return_amount"])
        acc.ev()
        acc.cls("router_fwd", len(hops), "foldfail" if failed else "foldok", rq["r"])
        if failed != (rq["r"] != "ok"):
            acc.violation("router forward simulation %s but the hop-by-hop fold %s" % (rq["r"], "failed" if failed else "succeeded"),
                          monitors.case_of(w, st, hops=[[o[1], a[1]] for o, a in hops], amount=str(amount)))
        elif not failed:
            acc.count("router_fwd_compared")
            if int(rq["v"]["amount"]) != cur:
                acc.violation("router forward simulation %s != fold of pair simulations %d" % (rq["v"]["amount"], cur),
                              monitors.case_of(w, st, hops=[[o[1], a[1]] for o, a in hops], amount=str(amount)))
        # reverse fold
        last = w.pair_for(*hops[-1])
        yout = last.reserves(led)[last.idx(hops[-1][1])]
        want = max(1, int(max(1, yout) * 2 ** rng.uniform(-14, -1)))
        cur, failed = want, False
        for (o, a) in reversed(hops):
            pr = w.pair_for(o, a)
            r = w.q(*w.q_rsim(pr, a, cur))
            if r["r"] != "ok":
                failed = True
                break
            cur = int(r["v"]["offer_amount"])
        rq = w.q(*w.q_route_rsim(hops, want))
        acc.ev()
        acc.cls("router_rev", len(hops), "foldfail" if failed else "foldok", rq["r"])
        if failed != (rq["r"] != "ok"):
            acc.violation("router reverse simulation %s but the fold %s" % (rq["r"], "failed" if failed else "succeeded"),
                          monitors.case_of(w, st, hops=[[o[1], a[1]] for o, a in hops], ask=str(want)))
        elif not failed:
            acc.count("router_rev_compared")
            if int(rq["v"]["amount"]) != cur:
                acc.violation("router reverse simulation %s != reverse fold of pair reverse simulations %d" % (rq["v"]["amount"], cur),
                              monitors.case_of(w, st, hops=[[o[1], a[1]] for o, a in hops], ask=str(want)))


_GEN = {}


def pre_hook(world, gen_, mons):
    for m in mons:
        if isinstance(m, QueryFold):
            m.g = gen_


def factory(w, a):
    return [monitors.C12(w, a), QueryFold(w, a, None)]


def _ok(st):
    return st.ok and st.op["kind"] == "swap" and st.op["sem"].get("well_formed")


def corrupt_quote(world, st):
    if not _ok(st) or not st.quotes or st.quotes[0]["r"] != "ok":
        return None
    import copy
    q = copy.deepcopy(st.quotes)
    q[0]["v"]["return_amount"] = str(int(q[0]["v"]["return_amount"]) + 1)
    st.quotes = q
    return st


def corrupt_payout(world, st):
    if not _ok(st):
        return None
    sem = st.op["sem"]
    rcv = sem["to"] or st.op["actor"]
    if rcv == sem["pair"].addr:
        return None
    other = sem["pair"].other(sem["named"])
    st.post.bal[(rcv, other[1])] -= 1
    return st


CORR = {"quote_plus_one": corrupt_quote, "payout_minus_one": corrupt_payout}


def factory_canary(w, a):
    return [monitors.C12(w, a)]


def run_shard(acc, prop, tier, seed, shard, nshards, **kw):
    from ..wrun import run_worlds
    srv = Server(log=False)
    try:
        fn_leg(acc, srv, sub_rng(seed, PROP, tier, shard, "fn"), 20000 if tier == "quick" else 700000)
        # canary on the reverse oracle
        x, y, ask, c = 10 ** 12, 10 ** 12, 10 ** 9, 3 * 10 ** 15
        resp = srv.call("compute_offer_amount", [str(x), str(y), str(ask), to_limbs(c)])
        fired = 0
        if reverse_verdict(x, y, ask, c, resp)[0] == "ok":
            for dlt in (2, -3):
                bad = dict(resp, v=[str(int(resp["v"][0]) + dlt)] + resp["v"][1:])
                if reverse_verdict(x, y, ask, c, bad)[0] == "violation":
                    fired += 1
        acc.count("canary_rev_fired", fired)
    finally:
        srv.close()
    nw, steps = (10, (140, 220)) if tier == "quick" else (260, (140, 300))
    def exotic_probe(world, gen_):
        from .. import exotic
        exotic.probe(world, gen_, acc, "C12")
        return []
    run_worlds(acc, PROP, tier, seed, shard, nshards, factory, WEIGHTS, nw, steps, pre_hook=pre_hook,
               post_hook=exotic_probe, post_every=2 if tier == "quick" else 3)
    # canary for the forward monitor (on a monitor without the query side effects)
    run_worlds(acc, PROP + "canary", tier, seed, shard, 1, factory_canary, WEIGHTS, 1, (80, 80), corruptions=CORR)


def floors(acc, tier):
    msgs = _w.canary_floor(acc, CORR)
    if acc.counters.get("canary_rev_fired", 0) < 2 * 16:
        msgs.append("reverse-oracle canary silent")
    _w.need(acc, msgs, "fwd_swaps_compared", 3000)
    _w.need(acc, msgs, "rev_fn_ok", 80000)
    _w.need(acc, msgs, "rev_sys_ok", 1000)
    _w.need(acc, msgs, "router_fwd_compared", 800)
    _w.need(acc, msgs, "router_rev_compared", 300)
    _w.need(acc, msgs, "exotic_swaps_ok", 100)
    for pk in ("nn", "nt", "tn", "tt"):
        for d in ("dir0", "dir1"):
            if not any(k.startswith("fwd|%s|" % pk) and ("|%s|ok|" % d) in k for k in acc.classes):
                msgs.append("no compared forward swap on %s %s" % (pk, d))
    return msgs


RULE = ("forward: every well-formed swap (both entry paths, both directions, all pair orientations) is preceded in the same batch by the "
        "pair's Simulation of the same offer; on success (return, spread, commission) must equal the response attributes and the ledger "
        "deltas. reverse: compute_offer_amount on random and constructed asks (ask/(1-c) near the ask reserve) and pair ReverseSimulation on "
        "live reserves against L < offer <= F whenever y - ask/(1-c) > 0. router: forward and reverse route simulations (1..4 hops) against "
        "the Python fold of the individual pair queries. Class = (leg, pair orientation / hops, direction, outcome, buckets).")


def main(tier, seed):
    run_check(PROP, "mon.props.c12", tier, seed, floors, RULE, _w.ASSUME_WORLD[:1] +
              ["y - ask/(1-c) <= 0 has no closed form: counted, not judged", "exact rationals by integer cross-multiplication"])
