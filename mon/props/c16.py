"""C16 — factory registry: one pair per unordered asset set, consistent with the pair.

Registry worlds: sequences of CreatePair over generated asset sets (denoms with shared prefixes and split points, cw20 addresses,
mixed kinds, both orders, unregistered denoms, non-contract addresses, identical assets, repeats). After every attempt the registry
is compared with a Python dict keyed by the frozenset of typed identifiers."""
from .. import gen
from ..core import D, Server, sub_rng, run_check, Acc
from ..regworld import RegWorld, info_to_asset, rate_atomics, DENOM_FAMILIES
from . import _w

PROP = "C16"


def refresh_native_decimals(rw, rec):
    """after a re-registration: native positions follow the registry; a cw20 side keeps what was recorded at creation"""
    for i, a in enumerate(rec["assets"]):
        if a[0] == "n":
            rec["decimals"][i] = rw.reg[a[1]]


def check_record(rw, acc, key, rec, ctx):
    """lookup in both orders must return exactly this pair, consistent with the pair's own description."""
    a0, a1 = rec["assets"]
    probs = []
    selfd = rw.pair_self(rec["addr"])
    if selfd["r"] != "ok":
        return ["pair %s does not answer Pair{}" % rec["addr"]]
    sv = selfd["v"]
    for order in ((a0, a1), (a1, a0)):
        r = rw.lookup(*order)
        if r["r"] != "ok":
            probs.append("lookup %s fails: %s" % ([x[1] for x in order], r.get("e", "")[:80]))
            continue
        v = r["v"]
        if v["contract_addr"] != rec["addr"]:
            probs.append("lookup %s resolves to %s, created %s" % ([x[1] for x in order], v["contract_addr"], rec["addr"]))
            continue
        got_assets = [info_to_asset(i) for i in v["asset_infos"]]
        if set(got_assets) != {a0, a1}:
            probs.append("registry assets %s != created %s" % (got_assets, [a0, a1]))
        for fld in ("asset_infos", "liquidity_token", "asset_decimals", "requirements", "commission_rate", "contract_addr"):
            if v.get(fld) != sv.get(fld):
                probs.append("registry %s=%r but the pair reports %r" % (fld, v.get(fld), sv.get(fld)))
        if v["liquidity_token"] != rec["lp"]:
            probs.append("registry LP token %s != instantiated %s" % (v["liquidity_token"], rec["lp"]))
        # true decimals, in the position of each asset
        for i, a in enumerate(got_assets):
            true = rw.reg.get(a[1]) if a[0] == "n" else rw.true_dec.get(a)
            created_dec = rec["decimals"][rec["assets"].index(a)] if a in rec["assets"] else None
            if created_dec is not None and v["asset_decimals"][i] != created_dec and not rec.get("dec_updated"):
                probs.append("decimals of %s recorded as %d, true %d" % (a[1], v["asset_decimals"][i], created_dec))
        if rate_atomics(v["commission_rate"]) != rec["rate"]:
            probs.append("commission rate %s != requested %d/1e18" % (v["commission_rate"], rec["rate"]))
        if v["requirements"]["whitelist"] != rec["whitelist"] or \
           [int(v["requirements"]["first_asset_minimum"]), int(v["requirements"]["second_asset_minimum"])] != rec["mins"]:
            probs.append("requirements %r != requested" % (v["requirements"],))
    return probs


def run_registry(acc, srv, key, n_ops):
    rng = sub_rng(*key)
    rw = RegWorld(srv, rng)
    A = rw.assets()
    bogus_tokens = [("t", "notacontract"), ("t", "contract999"), ("t", "owner")]
    fam_sets = []
    for f in DENOM_FAMILIES:
        if all(d in rw.denoms for d in f[:4]):
            fam_sets += [(("n", f[0]), ("n", f[1])), (("n", f[2]), ("n", f[3])), (("n", f[4]), ("n", f[5])),
                         (("n", f[0]), ("n", f[3])), (("n", f[2]), ("n", f[1]))]
    for step in range(n_ops):
        r = rng.random()
        if fam_sets and r < 0.3:
            a0, a1 = rng.choice(fam_sets)
            shape = "family_split"
        elif r < 0.4 and rw.model:
            a0, a1 = rw.model[rng.choice(list(rw.model))]["assets"]
            shape = "repeat"
        elif r < 0.46:
            a0 = rng.choice(A)
            a1 = a0
            shape = "identical"
        elif r < 0.54:
            a0, a1 = rng.choice(A), rng.choice(bogus_tokens)
            shape = "bogus_token"
        elif r < 0.6:
            # native denom spelled like a token address and the token itself: different typed identifiers
            t = rng.choice(rw.tokens)
            a0, a1 = rng.choice([("n", t), ("t", t)]), rng.choice([a for a in A if a[1] != t])
            shape = "typed_identity"
        elif r < 0.66:
            # the same cw20 spelled in another letter case (addresses are case-insensitive): still the same asset
            t = rng.choice(rw.tokens)
            a0 = ("t", t)
            a1 = ("t", t.upper()) if rng.random() < 0.7 else rng.choice([a for a in A if a[1] != t])
            if a1[0] == "t" and a1[1] != t.upper() and rng.random() < 0.5:
                a0 = ("t", t.upper())
            shape = "case_variant"
        elif r < 0.72 and rw.model:
            # re-registration of a native denom between creations (records must stay consistent with the pairs)
            regd = sorted(rw.reg)
            dn = rng.choice(regd)
            newdec = rng.choice([0, 6, 9, 18, rw.reg[dn]])
            rr = rw.x("owner", rw.factory, {"add_native_token_decimals": {"denom": dn, "decimals": newdec}})
            acc.ev()
            acc.cls("reregister", rr["r"])
            if rr["r"] == "ok":
                rw.reg[dn] = newdec
                acc.count("reregistrations")
                probs = []
                for k2 in rng.sample(rw.order, min(len(rw.order), 8)):
                    rec = rw.model[k2]
                    refresh_native_decimals(rw, rec)
                    probs += check_record(rw, acc, k2, rec, {})
                for rec in rw.model.values():
                    refresh_native_decimals(rw, rec)
                if probs:
                    acc.violation("after re-registering %s with %d decimals: %s" % (dn, newdec, "; ".join(probs[:3])),
                                  {"kind": "registry", "world_key": list(key), "step": step, "denom": dn})
            continue
        elif r < 0.735 and rw.model:
            # a live token changes its reported decimals (migration to another cw20 implementation); later creations and
            # re-registrations must not mix the old and the new value into records and pair reports
            rw.remodel_token(rng, acc)
            continue
        elif r < 0.80:
            kind, rr, padded = rw.admin_noise(rng, acc)
            probs = []
            keys = list(rw.order) if kind == "migrate_factory" else rng.sample(rw.order, min(len(rw.order), 8))
            for k2 in keys:
                probs += check_record(rw, acc, k2, rw.model[k2], {})
            if probs:
                acc.violation("after %s (%s): %s" % (kind, rr["r"], "; ".join(probs[:3])),
                              {"kind": "registry", "world_key": list(key), "step": step, "admin": kind})
            continue
        else:
            a0, a1 = rng.sample(A, 2)
            shape = "random"
        if rng.random() < 0.5:
            a0, a1 = a1, a0
        rate = rng.choice([None, 0, 1, 3 * 10 ** 15, D, D + 1, 2 * D, rng.randrange(0, D + 1)])
        wl = rng.choice([[], ["owner"], ["owner"], ["lp1", "lp2", "owner"]])
        mins = (rng.choice([0, 1, 10 ** 6]), rng.choice([0, 5, 10 ** 7]))
        resp, rec = rw.create(a0, a1, rate, wl, mins)
        norm = lambda a: (a[0], a[1].lower()) if a[0] == "t" else a
        key_ = frozenset([norm(a0), norm(a1)])
        acc.ev()
        expect_fail = None
        if norm(a0) == norm(a1):
            expect_fail = "identical assets"
        elif key_ in rw.model:
            expect_fail = "duplicate set"
        elif not rw.valid(a0) or not rw.valid(a1):
            expect_fail = "unregistered denom / not a live cw20"
        elif rate is not None and rate > D:
            expect_fail = None  # rate validity is not part of this property; either outcome is accepted
        kinds = a0[0] + a1[0]
        acc.cls(shape, kinds, resp["r"], "expfail" if expect_fail else "mayok", "n%d" % min(len(rw.model) // 5, 8))
        case = {"kind": "registry", "world_key": list(key), "step": step, "assets": [list(a0), list(a1)], "shape": shape,
                "result": resp["r"], "error": resp.get("e", "")[:160] if resp["r"] != "ok" else None}
        if resp["r"] == "ok":
            acc.count("creations_ok")
            if expect_fail:
                acc.violation("CreatePair %s/%s succeeded although: %s" % (a0[1], a1[1], expect_fail), case)
                if key_ not in rw.model and rec and rec["addr"]:
                    pass
                continue
            rw.model[key_] = rec
            rw.order.append(key_)
            if "owner" in wl and rng.random() < 0.5:
                fr = rw.fund(rec, (max(1000, mins[0]), max(1000, mins[1])))
                acc.count("pairs_funded" if fr["r"] == "ok" else "pair_funding_failed")
            probs = check_record(rw, acc, key_, rec, case)
            # every earlier pair must still resolve to itself (no aliasing by the new key)
            for k2 in rng.sample(rw.order[:-1], min(len(rw.order) - 1, 6)):
                probs += check_record(rw, acc, k2, rw.model[k2], case)
            if probs:
                acc.violation("after creating %s/%s: %s" % (a0[1], a1[1], "; ".join(probs[:3])), case)
            elif len(acc.samples) < acc.max_samples:
                acc.sample({"created": [a0[1], a1[1]], "pair": rec["addr"], "registry_size": len(rw.model), "shape": shape})
        else:
            acc.count("creations_rejected")
            if expect_fail is None and not (rate is not None and rate > D):
                # a well-formed creation of a new set over valid assets was refused: only an alarm if it is refused AS A DUPLICATE
                if "already exists" in resp.get("e", ""):
                    acc.violation("CreatePair %s/%s refused as duplicate but that set was never created" % (a0[1], a1[1]), case)
                else:
                    acc.count("wellformed_creation_rejected_other")
            # a never-created set must not resolve
            if key_ not in rw.model and norm(a0) != norm(a1):
                lk = rw.lookup(a0, a1)
                if lk["r"] == "ok":
                    acc.violation("lookup of never-created set %s/%s resolves to %s" % (a0[1], a1[1], lk["v"].get("contract_addr")), case)
        # lookups of sets that were never created must error
        if step % 4 == 0:
            for _ in range(3):
                b0, b1 = rng.sample(A, 2)
                if frozenset([b0, b1]) in rw.model:
                    continue
                lk = rw.lookup(b0, b1)
                acc.ev()
                acc.cls("lookup_absent", b0[0] + b1[0], lk["r"])
                acc.count("absent_lookups")
                if lk["r"] == "ok":
                    acc.violation("lookup of never-created set %s/%s resolves to %s" % (b0[1], b1[1], lk["v"].get("contract_addr")),
                                  {"kind": "registry", "world_key": list(key), "step": step, "assets": [list(b0), list(b1)]})
    acc.count("registries")
    acc.count("max_registry_%d" % min(len(rw.model) // 10 * 10, 40))
    return rw


def run_star(acc, srv, key):
    """one native denom shared by (almost) every pair of a large registry, then re-registered: every record must still
    equal what its pair reports about itself"""
    rng = sub_rng(*key)
    rw = RegWorld(srv, rng, n_tokens=7, n_families=4, all_extras=True)
    regd = sorted(rw.reg)
    hot = ("n", rng.choice(regd))
    others = [a for a in rw.assets() if a != hot and rw.valid(a)]
    rng.shuffle(others)
    for o in others[:38]:
        a0, a1 = (hot, o) if rng.random() < 0.5 else (o, hot)
        resp, rec = rw.create(a0, a1, None, ["owner"], (0, 0))
        if resp["r"] == "ok":
            rw.model[frozenset([a0, a1])] = rec
            rw.order.append(frozenset([a0, a1]))
    for newdec in (rng.choice([0, 8, 18]), rng.choice([6, 9, 12])):
        rr = rw.x("owner", rw.factory, {"add_native_token_decimals": {"denom": hot[1], "decimals": newdec}})
        acc.ev()
        acc.cls("star_reregister", rr["r"], "n%d" % (len(rw.model) // 10 * 10))
        if rr["r"] != "ok":
            continue
        rw.reg[hot[1]] = newdec
        acc.count("star_reregistrations")
        probs = []
        for k2 in rw.order:
            rec = rw.model[k2]
            refresh_native_decimals(rw, rec)
            probs += check_record(rw, acc, k2, rec, {})
        if probs:
            acc.violation("after re-registering %s (shared by %d pairs) with %d decimals: %s" % (hot[1], len(rw.model), newdec, "; ".join(probs[:3])),
                          {"kind": "registry", "world_key": list(key), "denom": hot[1], "pairs": len(rw.model)})
    acc.count("star_registries_over_30" if len(rw.model) > 30 else "star_registries_small")


def run_shard(acc, prop, tier, seed, shard, nshards, **kw):
    srv = Server()
    try:
        n = 11 if tier == "quick" else 1200
        rw = None
        for wi in range(n):
            from .. import core as _core
            if _core.skip_world(wi):
                continue
            rng = sub_rng("n", seed, PROP, tier, shard, wi)
            if wi == 1 or (tier == "thorough" and wi % 25 == 1):
                run_star(acc, srv, (seed, PROP, tier, shard, wi, "star"))
                continue
            rw = run_registry(acc, srv, (seed, PROP, tier, shard, wi), rng.choice([25, 40, 60, 90]))
        # canary: a record whose lookup is pointed at another pair must be flagged
        if rw is not None and len(rw.order) >= 2:
            k1, k2 = rw.order[0], rw.order[1]
            fake = dict(rw.model[k1], addr=rw.model[k2]["addr"])
            if check_record(rw, Acc(), k1, fake, {}):
                acc.count("canary_fired")
            fake = dict(rw.model[k1], rate=rw.model[k1]["rate"] + 1)
            if check_record(rw, Acc(), k1, fake, {}):
                acc.count("canary_fired")
    finally:
        srv.close()


def floors(acc, tier):
    msgs = []
    if acc.counters.get("canary_fired", 0) < 24:
        msgs.append("canary silent (%d)" % acc.counters.get("canary_fired", 0))
    _w.need(acc, msgs, "creations_ok", 1200)
    _w.need(acc, msgs, "creations_rejected", 800)
    _w.need(acc, msgs, "absent_lookups", 1000)
    _w.need(acc, msgs, "star_registries_over_30", 8)
    _w.need(acc, msgs, "admin_noise_migrate_pair_ok", 40)
    _w.need(acc, msgs, "admin_noise_owner_direct_update_err", 20)
    _w.need(acc, msgs, "admin_noise_migrate_factory_ok", 20)
    for shape in ("family_split", "repeat", "identical", "bogus_token", "typed_identity", "case_variant", "random"):
        if not any(k.startswith(shape + "|") for k in acc.classes):
            msgs.append("shape %s never generated" % shape)
    if not any(k.startswith("family_split|") and "|ok|" in k for k in acc.classes):
        msgs.append("no successful creation in a prefix/split denom family")
    return msgs


RULE = ("sequences of 25-90 CreatePair attempts per registry over generated asset sets: valid denoms whose different splits concatenate "
        "to the same bytes (abcd|efg vs abc|defg, uaura|xyz vs uaur|axyz, ...), cw20 addresses, a native denom spelled like a token address, "
        "both orders, unregistered denoms, non-contract addresses, identical assets, repeated sets; all commission rates and requirement "
        "settings. After each attempt: expected rejections must be rejections; a created pair and a sample of earlier pairs must resolve to "
        "themselves in both orders with every field equal to the pair's own Pair{} answer and true decimals; never-created sets must not resolve. "
        "Class = (shape, asset kinds, outcome, expected-to-fail?, registry size bucket).")


def main(tier, seed):
    run_check(PROP, "mon.props.c16", tier, seed, floors, RULE,
              ["cw-multi-test 0.16.1 + cw20-base 1.0.0 stand in for the chain", "only syntactically valid cosmos denoms (>= 3 chars) are used",
               "Python dict keyed by frozenset of typed identifiers is the reference registry"])
