"""C07 — operations never touch third-party balances and conserve token totals (full ledger every step)."""
from .. import monitors
from ..core import run_check
from . import _w

PROP = "C07"
WEIGHTS = {"swap": 24, "swap_window": 2, "swap_malformed": 8, "provide": 14, "provide_first": 4, "withdraw": 12,
           "route": 14, "donate": 4, "lp_burn": 1, "lp_transfer": 1, "unauth": 4, "provide_malformed": 5,
           "route_bad": 3, "intent": 3, "add_decimals": 1, "transfer": 2}


def factory(w, a):
    return [monitors.C07(w, a)]


def _changing(st):
    return st.ok and st.op["kind"] in ("swap", "provide", "withdraw", "route")


def corrupt_bystander(world, st):
    if not _changing(st):
        return None
    a = world.all_assets()[0]
    sem = st.op.get("sem", {})
    rcv = sem.get("to") or sem.get("receiver")
    by = "by1" if "by2" in (rcv, st.op["actor"]) else "by2"
    st.post.bal[(by, a[1])] -= 1
    st.post.bal[(st.op["actor"], a[1])] += 1
    return st


def corrupt_supply(world, st):
    if not _changing(st):
        return None
    t = world.tokens[0][1]
    st.post.supply[t] += 5
    st.post.bal[(st.op["actor"], t)] += 5
    return st


def corrupt_allowance(world, st):
    if not _changing(st) or not st.post.allow:
        return None
    st.post.allow[0] -= 1
    return st


def corrupt_lp_mint(world, st):
    if not (st.ok and st.op["kind"] == "swap"):
        return None
    p = st.op["sem"]["pair"]
    st.post.supply[p.lp] += 1
    st.post.bal[(st.op["actor"], p.lp)] = st.post.bal.get((st.op["actor"], p.lp), 0) + 1
    return st


CORR = {"bystander_debited": corrupt_bystander, "token_supply_changed": corrupt_supply,
        "bystander_allowance_spent": corrupt_allowance, "lp_minted_by_swap": corrupt_lp_mint}


def run_shard(acc, prop, tier, seed, shard, nshards, **kw):
    _w.shard(acc, PROP, tier, seed, shard, nshards, factory, WEIGHTS, (12, (120, 220)), (220, (120, 300)), CORR)


def floors(acc, tier):
    msgs = _w.canary_floor(acc, CORR)
    _w.need(acc, msgs, "steps_with_balance_changes", 8000)
    kinds = set(k.split("|")[0] for k in acc.classes if k.split("|")[1] == "ok")
    want = {"swap", "provide", "withdraw", "route", "donate"}
    if not want <= kinds:
        msgs.append("successful operation kinds seen: %s" % sorted(kinds))
    if not any(k.split("|")[2] == "recv" and k.split("|")[1] == "ok" for k in acc.classes):
        msgs.append("no successful operation with a designated receiver")
    return msgs


RULE = ("every step of seeded multi-actor histories over everything addressed to factory / pair / router plus plain transfers "
        "(direct cw20 calls on the LP token are environment operations and skipped), with two bystanders holding every asset and "
        "open allowances toward every pair and the router. The set of changed (account, asset) cells must be a subset of what the "
        "message declares (caller, addressed pair(s)/router, designated receiver increase-only, reserved LP unit on first provision); "
        "native sums, non-LP supplies and bystander allowances must not move; LP supply only by provide/withdraw amounts. "
        "Class = (op kind, outcome, receiver?, number of changed cells, pair orientation).")


def main(tier, seed):
    run_check(PROP, "mon.props.c07", tier, seed, floors, RULE, _w.ASSUME_WORLD)
