"""C13 — router is a pure pass-through and delivers what it quoted.

Precondition checked from the ledger: hops use distinct pairs, router holds none of the route's assets, sender supplies only the first
hop's offer asset. Then recipient gain == router simulation in the same state, input consumed, router ends at zero, only the final asset
reaches the recipient. Empty routes and routes with more than one dangling output must fail."""
from .. import monitors
from ..core import run_check
from . import _w

PROP = "C13"
WEIGHTS = {"swap": 16, "swap_window": 1, "route": 56, "provide": 8, "provide_first": 2, "withdraw": 4, "donate": 3,
           "swap_malformed": 0, "provide_malformed": 0, "unauth": 0, "transfer": 0, "lp_transfer": 0, "lp_burn": 0,
           "route_bad": 12, "intent": 6, "add_decimals": 0}


def factory(w, a):
    return [monitors.Router(w, a, "C13")]


def _ok(world, st):
    if not (st.ok and st.op["kind"] == "route"):
        return False
    sem = st.op["sem"]
    rcp = sem["to"] or st.op["actor"]
    if rcp == world.router or rcp in [p.addr for p in world.pairs]:
        return False
    return all(st.pre.get(world.router, a[1]) == 0 for h in sem["hops"] for a in h)


def corrupt_skim(world, st):
    if not _ok(world, st):
        return None
    sem = st.op["sem"]
    rcp = sem["to"] or st.op["actor"]
    final = sem["hops"][-1][1]
    st.post.bal[(rcp, final[1])] -= 1
    st.post.bal[(world.router, final[1])] = st.post.bal.get((world.router, final[1]), 0) + 1
    return st


def corrupt_intermediate(world, st):
    if not _ok(world, st) or len(st.op["sem"]["hops"]) < 2:
        return None
    sem = st.op["sem"]
    rcp = sem["to"] or st.op["actor"]
    if rcp == st.op["actor"]:
        return None
    mid = sem["hops"][0][1]
    if mid == sem["hops"][-1][1]:
        return None
    st.post.bal[(rcp, mid[1])] = st.post.bal.get((rcp, mid[1]), 0) + 1
    return st


CORR = {"router_keeps_one": corrupt_skim, "intermediate_asset_to_recipient": corrupt_intermediate}


def path_walk(world, gen_):
    for c in gen_.walk_paths():
        yield c


def run_shard(acc, prop, tier, seed, shard, nshards, **kw):
    def walk_then_exotic(world, gen_):
        for c in gen_.walk_paths():
            yield c
        # last: one-hop routes on a pair whose native denom is spelled like its own cw20 (quote vs delivery)
        from .. import exotic
        exotic.probe(world, gen_, acc, "C13")

    _w.shard(acc, PROP, tier, seed, shard, nshards, factory, WEIGHTS, (12, (140, 220)), (300, (140, 300)), CORR,
             post_hook=walk_then_exotic, post_every=(2, 1))


def floors(acc, tier):
    msgs = _w.canary_floor(acc, CORR)
    _w.need(acc, msgs, "c13_precondition_met", 1500)
    for h in (1, 2, 3, 4):
        _w.need(acc, msgs, "routes_ok_%dhop" % h, 40)
    _w.need(acc, msgs, "routes_ok_revisiting_final_asset", 5)
    _w.need(acc, msgs, "worlds_with_exhaustive_walk", 48)
    _w.need(acc, msgs, "exotic_swaps_ok", 100)
    for bm in ("empty", "dangling", "merge", "side_branch", "repeat_hop"):
        if not any(("|" + bm + "|") in k for k in acc.classes):
            msgs.append("bad route shape %s never attempted" % bm)
    return msgs


RULE = ("router transactions over all simple paths and cycles of 1..4 hops of each world's pair graph (nn, nt, tn, tt pairs), native "
        "and cw20 entry, any recipient, input sizes from dust to several times the first reserve, pool states shaped by prior history; "
        "in every second world (quick; every world in thorough) ALL routes of the pair graph (simple paths, cycles, routes revisiting their final "
        "asset; 1..4 hops) are additionally walked exhaustively in the final state; plus empty, dangling (>1 output), merging ([A->B, C->B]), unknown-pair, wrong-entry and repeated-pair routes. "
        "Class = (hops, entry kind, outcome, minimum relation, recipient kind, route shape, staleness, cycle?).")


def main(tier, seed):
    run_check(PROP, "mon.props.c13", tier, seed, floors, RULE, _w.ASSUME_WORLD)
