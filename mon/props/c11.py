"""C11 — router delivers at least minimum_receive or the whole route reverts.

Routes of 1..4 hops (incl. cycles ending in the input asset), both entry points, recipient in {sender, other, a pair, the router},
minimum_receive around the router's own quote {q-1, q, q+1, 0, 2^127, ...} taken 0..3 foreign operations earlier."""
from .. import monitors
from ..core import run_check
from . import _w

PROP = "C11"
WEIGHTS = {"swap": 18, "swap_window": 1, "route": 50, "provide": 8, "provide_first": 2, "withdraw": 4, "donate": 5,
           "swap_malformed": 0, "provide_malformed": 0, "unauth": 1, "transfer": 0, "lp_transfer": 0, "lp_burn": 0,
           "route_bad": 4, "intent": 30, "add_decimals": 0}


def factory(w, a):
    return [monitors.Router(w, a, "C11")]


def _ok_min(st):
    return st.ok and st.op["kind"] == "route" and st.op["sem"].get("min") is not None


def corrupt_short(world, st):
    """recipient ends with less than the minimum although the route 'succeeded'"""
    if not _ok_min(st):
        return None
    sem = st.op["sem"]
    rcp = sem["to"] or st.op["actor"]
    if rcp == world.router or rcp in [p.addr for p in world.pairs]:
        return None
    final = sem["hops"][-1][1]
    got = st.post.get(rcp, final[1]) - st.pre.get(rcp, final[1])
    paid = sem["amount"] if (rcp == st.op["actor"] and sem["entry_asset"] == final) else 0
    m = sem["min"]
    if m == 0:
        return None
    st.post.bal[(rcp, final[1])] -= (got + paid) - (m - 1)
    return st


def corrupt_partial_revert(world, st):
    if st.ok or st.op["kind"] != "route":
        return None
    sem = st.op["sem"]
    k = (world.router, sem["entry_asset"][1])
    st.post.bal[k] = st.post.bal.get(k, 0) + 1
    return st


CORR = {"delivered_below_minimum": corrupt_short, "failed_route_left_funds": corrupt_partial_revert}


def run_shard(acc, prop, tier, seed, shard, nshards, **kw):
    _w.shard(acc, PROP, tier, seed, shard, nshards, factory, WEIGHTS, (12, (140, 220)), (300, (140, 300)), CORR,
             world_kw={"whale": True})


def floors(acc, tier):
    msgs = _w.canary_floor(acc, CORR)
    _w.need(acc, msgs, "ok_with_minimum", 1500)
    _w.need(acc, msgs, "reverted_because_below_minimum", 500)
    for h in (1, 2, 3, 4):
        _w.need(acc, msgs, "routes_ok_%dhop" % h, 40 if h < 4 else 25)
    for ent in ("n", "t"):
        if not any(k.split("|")[2] == ent and k.split("|")[3] == "ok" for k in acc.classes if k.startswith("C11|")):
            msgs.append("no successful route entered with %s" % ent)
    for mr in ("mlt", "meq", "mgt"):
        if not any(("|" + mr + "|") in k for k in acc.classes):
            msgs.append("minimum_receive relation %s to the same-state quote never seen" % mr)
    if not any("|repeat_hop|" in k and ("|meq|" in k or "|mlt|" in k) for k in acc.classes):
        msgs.append("no route repeating a hop with minimum_receive at or just below the router's (stale) quote")
    if not any("|cycle" in k and "|ok|" in k for k in acc.classes):
        msgs.append("no successful cycle route (final asset = input asset)")
    return msgs


RULE = ("router transactions in seeded multi-actor histories: all simple paths and cycles of 1..4 hops over the pair graph, native and "
        "cw20 entry, minimum_receive in {none, q-1, q, q+1, 0, 2^127, q-small} around the router's quote taken 0..3 foreign operations "
        "earlier (so it is stale in both directions), recipient in {sender, another account, a pair, the router}. Success requires "
        "recipient gain (+ what it paid in that asset) >= minimum; failure requires a bit-identical ledger and storage digests. "
        "Class = (hops, entry kind, outcome, minimum vs same-state quote, recipient kind, route shape, staleness, cycle?).")


def main(tier, seed):
    run_check(PROP, "mon.props.c11", tier, seed, floors, RULE, _w.ASSUME_WORLD)
