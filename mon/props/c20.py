"""C20 — liquidity can always be withdrawn.

Injection monitor: at random points of hostile histories (extreme swaps, donations up to 2^118, window offers, direct burns,
further provisions, pools pushed so that x*y*1e18 overflows and swaps abort) an entitled holder withdraws: it must succeed."""
from .. import monitors
from ..core import D, run_check
from ..hist import HistGen
from ..world import ACTORS
from . import _w

PROP = "C20"
WEIGHTS = {"swap": 24, "swap_window": 4, "route": 5, "provide": 14, "provide_first": 4, "withdraw": 6, "donate": 12,
           "swap_malformed": 1, "provide_malformed": 0, "unauth": 0, "transfer": 0, "lp_transfer": 3, "lp_burn": 4,
           "route_bad": 0, "intent": 0, "add_decimals": 1, "inject": 26}


def inject(self):
    """an entitled withdrawal: smallest entitled amount, random entitled amount, or full balance"""
    w, rng = self.w, self.rng
    led = w.ledger
    cands = []
    for p in w.pairs:
        S = p.supply(led)
        r0, r1 = p.reserves(led)
        if S == 0:
            continue
        # smallest a with r*a/S >= r/D + 2 for both assets  <=>  a >= ceil((r + 2D)*S/(r*D))
        if r0 == 0 or r1 == 0:
            continue
        amin = max(-(-((r + 2 * D) * S) // (r * D)) for r in (r0, r1))
        for a in ACTORS:
            if a in ("by1", "by2"):
                continue
            b = led.get(a, p.lp)
            if b >= amin:
                cands.append((p, a, b, amin))
    if not cands:
        return self.g_withdraw()
    p, actor, bal, amin = rng.choice(cands)
    r = rng.random()
    amt = amin if r < 0.4 else (bal if r < 0.6 else rng.randrange(amin, bal + 1))
    op = w.op_withdraw(actor, p, amt)
    op["sem"]["after"] = "after_" + str(getattr(self, "last_kind", "-"))
    return op, [(p.addr, {"pool": {}})]


class Gen20(HistGen):
    pass


def pre_hook(world, gen_, mons):
    # extend the generator with the injection kind and remember the previous op kind
    orig_next = gen_.next

    def nxt():
        k = gen_.rng.random()
        if k < 0.26:
            gen_.count += 1
            return inject(gen_)
        if k < 0.30:
            # a whale donates up to 2^118 of one asset to a funded pair (reserve products beyond every internal range)
            w_ = gen_.w
            funded = [p for p in w_.pairs if p.supply(w_.ledger) > 0]
            if funded:
                p = gen_.rng.choice(funded)
                asset = gen_.rng.choice(p.assets)
                amt = 1 << gen_.rng.choice([100, 108, 112, 116, 118])
                who = gen_.rng.choice(["attacker", "trader1", "trader2"])
                if w_.ledger.get(who, asset[1]) >= amt:
                    gen_.count += 1
                    gen_.last_kind = "whale_donation"
                    return w_.op_donate(who, p.addr, asset, amt), []
        if k < 0.33:
            # the owner re-registers a native denom with decimals far from the other asset's (any u8 is accepted): the pair's
            # decimal difference then exceeds every power of ten a u64 / u128 can hold; liquidity must still come out
            w_ = gen_.w
            nat = gen_.rng.choice(w_.natives)
            dec = gen_.rng.choice([19, 20, 26, 30, 38, 39, 77, 255])
            gen_.count += 1
            gen_.last_kind = "far_decimals"
            return {"kind": "add_decimals", "actor": "owner", "contract": w_.factory,
                    "msg": {"add_native_token_decimals": {"denom": nat[1], "decimals": dec}}, "funds": [],
                    "sem": {"denom": nat[1], "decimals": dec, "funds": []}}, []
        op, q = orig_next()
        gen_.last_kind = op["kind"]
        return op, q
    gen_.next = nxt


def factory(w, a):
    return [monitors.C20(w, a)]


def corrupt_fail(world, st):
    if not (st.ok and st.op["kind"] == "withdraw"):
        return None
    p, a = st.op["sem"]["pair"], st.op["sem"]["amount"]
    r0, r1 = p.reserves(st.pre)
    S = p.supply(st.pre)
    if not all(r * a * D >= (r + 2 * D) * S for r in (r0, r1)):
        return None
    st.res = {"r": "err", "e": "Cannot Sub with 0 and 1\x1fx"}
    return st


CORR = {"entitled_withdrawal_failed": corrupt_fail}


def churn_world(acc, key, cycles):
    """one holder stays in a pool while another provides and withdraws 2^119 per asset hundreds of times: the amounts ever
    paid out by the pair add up beyond 2^128. Every withdrawal (all of them entitled: whole balances of ~2^119) must succeed."""
    from ..core import Server, sub_rng
    from ..world import World, err_text
    srv = Server()
    try:
        rng = sub_rng(*key)
        w = World(srv, rng, scale_bits=40, whitelist_mode="two")
        p = rng.choice([q for q in w.pairs if q.kind() == "nn"] or w.pairs[:1])
        if p.kind() != "nn":
            for a in p.assets:
                if a[0] == "t":
                    for who in ("lp1", "lp2"):
                        w.x(who, a[1], {"increase_allowance": {"spender": p.addr, "amount": str((1 << 127) - 1)}})
        big = 1 << 119
        # (a first provision needs d0*d1 < 2^128, any provision (r0+d0)(r1+d1)*1e18 < 2^256: a skewed pool 2^45 : 1)
        st = w.step(w.op_provide("lp2", p, [1 << 86, 1 << 41]))
        if not st.ok:
            acc.count("churn_seed_failed")
            acc.cls("churn_seed_failed", err_text(st.res)[:80])
            return
        paid = 0
        for i in range(cycles):
            r0, r1 = p.reserves(w.ledger)
            # proportional to the pool
            st = w.step(w.op_provide("lp1", p, [big, max(1, big * r1 // r0)]))
            acc.ev()
            if not st.ok:
                acc.count("churn_provide_failed")
                break
            bal = w.ledger.get("lp1", p.lp)
            st = w.step(w.op_withdraw("lp1", p, bal))
            acc.ev()
            acc.count("churn_withdrawals")
            if not st.ok:
                acc.violation("withdrawal #%d of a whole balance (%d LP) failed after %d x 2^119 had been paid out by the pair: %s"
                              % (i + 1, bal, i, err_text(st.res)[:160]),
                              {"kind": "churn", "world_key": list(key), "cycle": i})
                return
            paid += big
            if p.kind() != "nn" and i % 100 == 99:
                for a in p.assets:
                    if a[0] == "t":
                        w.x("lp1", a[1], {"increase_allowance": {"spender": p.addr, "amount": str(1 << 126)}})
        bal = w.ledger.get("lp2", p.lp)
        st = w.step(w.op_withdraw("lp2", p, bal // 2))
        acc.ev()
        acc.cls("churn", p.kind(), "paid>2^128" if paid >= 1 << 128 else "paid<2^128", st.res["r"])
        if paid >= 1 << 128:
            acc.count("churn_worlds_beyond_2^128")
        if not st.ok:
            acc.violation("the remaining holder's withdrawal failed after the pair had paid out %d in total: %s"
                          % (paid, err_text(st.res)[:160]), {"kind": "churn", "world_key": list(key)})
    finally:
        srv.close()


def run_shard(acc, prop, tier, seed, shard, nshards, **kw):
    w = dict(WEIGHTS)
    w.pop("inject")
    _w.shard(acc, PROP, tier, seed, shard, nshards, factory, w, (16, (140, 220)), (300, (140, 300)), CORR, pre_hook=pre_hook)
    from .. import core as _core
    if _core.ONLY_WORLD in (None, "churn") and (tier == "thorough" or shard % 4 == 0):
        churn_world(acc, (seed, PROP, tier, shard, "churn"), 530)


def floors(acc, tier):
    msgs = _w.canary_floor(acc, CORR)
    _w.need(acc, msgs, "entitled_attempts", 5000)
    _w.need(acc, msgs, "churn_worlds_beyond_2^128", 2)
    after = set(k.split("|")[-1] for k in acc.classes if "|entitled|" in k)
    if len(after) < 6:
        msgs.append("entitled withdrawals followed only %s" % sorted(after))
    big = any("|entitled|" in k and ("|rb4|" in k or "|rb3|" in k) for k in acc.classes)
    if not big:
        msgs.append("no entitled withdrawal at reserves above 2^64")
    return msgs


RULE = ("withdrawals injected at random points (about a quarter of all steps) of hostile histories on all pair orientations: for a random "
        "holder the smallest amount a with r_i*a/S >= r_i/1e18 + 2 for both assets, a random entitled amount, or the full balance; "
        "prior operations include swaps of many times the reserves, window offers, donations up to 2^118, direct LP burns and transfers, "
        "further provisions and decimals re-registration. Class = (pair orientation, entitled/below, outcome, reserve bucket, supply bucket, "
        "full/part, kind of the preceding operation). Every entitled attempt must succeed; below-threshold attempts are only counted.")


def main(tier, seed):
    run_check(PROP, "mon.props.c20", tier, seed, floors, RULE, _w.ASSUME_WORLD +
              ["bounded progress: 'can always be withdrawn' is decided as 'the next transaction succeeds', one step"])
