"""C06 — swap output is the constant-product price less commission, within one unit; never decreases with the offer.

Function level on compute_swap (constructive residue generators, all rates incl. 0, 1e-18, 1-1e-18, 1, 18-digit) and on
pairs of offers a < a' over the same reserves; system level on Simulation responses and swap attributes in worlds."""
from .. import gen, swapgen, monitors
from ..core import D, M128, Server, to_limbs, sub_rng, run_check
from . import _w

PROP = "C06"
WEIGHTS = {"swap": 50, "swap_window": 10, "route": 4, "provide": 10, "withdraw": 6, "donate": 6, "swap_malformed": 8,
           "provide_malformed": 0, "unauth": 0, "transfer": 0, "lp_transfer": 0, "lp_burn": 1, "route_bad": 0,
           "intent": 2, "add_decimals": 0}


def factory(w, a):
    return [monitors.C06(w, a)]


def corrupt_attr(world, st):
    if not (st.ok and st.op["kind"] == "swap" and st.op["sem"].get("well_formed")):
        return None
    import copy
    res = copy.deepcopy(st.res)
    for e in res["v"]["events"]:
        if e["ty"] == "wasm":
            for kv in e["a"]:
                if kv[0] == "commission_amount":
                    kv[1] = str(int(kv[1]) + 1)
    st.res = res
    return st


def corrupt_commission_leaves(world, st):
    if not (st.ok and st.op["kind"] == "swap" and st.op["sem"].get("well_formed")):
        return None
    sem = st.op["sem"]
    if (sem["to"] or st.op["actor"]) == sem["pair"].addr:
        return None
    other = sem["pair"].other(sem["named"])
    st.post.bal[(sem["pair"].addr, other[1])] -= 1
    return st


CORR = {"commission_attr_plus_one": corrupt_attr, "commission_left_pool": corrupt_commission_leaves}


def judge(x, y, a, c, resp):
    if resp["r"] != "ok":
        return "abort", None
    n, sp, cm = (int(v) for v in resp["v"])
    probs = monitors.band_problems(x, y, a, c, n, sp, cm)
    return ("violation", "; ".join(probs)) if probs else ("ok", None)


def fn_leg(acc, srv, rng, n_cases):
    from ..core import dropped_groups
    if "fn_formulas" in dropped_groups():
        acc.count("fn_leg_skipped_adapter_built_without_fn_formulas")
        return
    batch = []
    for _ in range(n_cases):
        x, y, a, tag = swapgen.case(rng)
        c = swapgen.rate_for(rng, x, y, a)
        batch.append((x, y, a, c, tag))
    resps = srv.calls([("compute_swap", [str(x), str(y), str(a), to_limbs(c)]) for x, y, a, c, _ in batch])
    for (x, y, a, c, tag), resp in zip(batch, resps):
        acc.ev()
        v, detail = judge(x, y, a, c, resp)
        acc.cls("fn", tag, v, gen.bucket(x), gen.bucket(y), gen.bucket(a), "c" + gen.bucket(c),
                "c_edge" if c in (0, 1, D - 1, D) else "c_mid")
        acc.count("fn_" + v)
        case = {"kind": "fn", "f": "compute_swap", "a": [str(x), str(y), str(a), to_limbs(c)], "observed": resp, "family": tag}
        if v == "violation":
            acc.violation("compute_swap(%d,%d,%d,rate=%d): %s" % (x, y, a, c, detail), case)
        elif v == "ok" and len(acc.samples) < 3:
            acc.sample(case)


def mono_leg(acc, srv, rng, n_pairs):
    from ..core import dropped_groups
    if "fn_formulas" in dropped_groups():
        return
    cases = []
    for _ in range(n_pairs):
        x, y, a, tag = swapgen.case(rng)
        c = swapgen.rate_for(rng, x, y, a)
        r = rng.random()
        if r < 0.5:
            a2 = a + 1
            rel = "adjacent"
        elif r < 0.75:
            a2 = a + rng.randrange(1, max(2, a // 1000 + 2))
            rel = "near"
        else:
            a2 = min(M128, a + gen.amount128(rng))
            rel = "far"
        if a2 > M128 or a2 <= a:
            continue
        cases.append((x, y, a, a2, c, tag, rel))
    reqs = []
    for x, y, a, a2, c, tag, rel in cases:
        reqs.append(("compute_swap", [str(x), str(y), str(a), to_limbs(c)]))
        reqs.append(("compute_swap", [str(x), str(y), str(a2), to_limbs(c)]))
    resps = srv.calls(reqs)
    for i, (x, y, a, a2, c, tag, rel) in enumerate(cases):
        r1, r2 = resps[2 * i], resps[2 * i + 1]
        acc.ev()
        both = r1["r"] == "ok" and r2["r"] == "ok"
        acc.cls("mono", rel, tag, "both_ok" if both else "not_both", gen.bucket(x), gen.bucket(a))
        if not both:
            continue
        acc.count("mono_pairs_compared")
        n1, n2 = int(r1["v"][0]), int(r2["v"][0])
        if n1 > n2:
            acc.violation("output decreased when the offer grew: x=%d y=%d c=%d: n(%d)=%d > n(%d)=%d" % (x, y, c, a, n1, a2, n2),
                          {"kind": "fn", "f": "compute_swap", "a": [str(x), str(y), str(a), to_limbs(c)],
                           "a2": [str(x), str(y), str(a2), to_limbs(c)], "observed": [r1, r2]})


def canary_fn(acc, srv):
    from ..core import dropped_groups
    if "fn_formulas" in dropped_groups():
        return
    fired = 0
    tests = [(10 ** 9, 10 ** 9, 12345, 3 * 10 ** 15), (5 * 10 ** 20, 7 * 10 ** 12, 10 ** 19, 0)]
    for x, y, a, c in tests:
        resp = srv.call("compute_swap", [str(x), str(y), str(a), to_limbs(c)])
        if judge(x, y, a, c, resp)[0] != "ok":
            continue
        v = list(resp["v"])
        for j in range(3):
            w = list(v)
            w[j] = str(int(w[j]) + 1)
            if judge(x, y, a, c, dict(resp, v=w))[0] == "violation":
                fired += 1
    acc.count("canary_fn_fired", fired)
    acc.count("canary_fn_expected", 3 * len(tests))


def run_shard(acc, prop, tier, seed, shard, nshards, **kw):
    srv = Server(log=False)
    try:
        rng = sub_rng(seed, PROP, tier, shard, "fn")
        rounds = 10 if tier == "quick" else 400
        for _ in range(rounds):
            fn_leg(acc, srv, rng, 2000)
            mono_leg(acc, srv, rng, 700)
        canary_fn(acc, srv)
    finally:
        srv.close()
    def exotic_probe(world, gen_):
        from .. import exotic
        exotic.probe(world, gen_, acc, "C06")
        return []
    _w.shard(acc, PROP, tier, seed, shard, nshards, factory, WEIGHTS, (8, (120, 200)), (220, (120, 300)), CORR,
             post_hook=exotic_probe, post_every=(2, 3))


def floors(acc, tier):
    msgs = _w.canary_floor(acc, CORR)
    c = acc.counters
    if c.get("canary_fn_fired", 0) != c.get("canary_fn_expected", -1):
        msgs.append("function-level canary silent")
    _w.need(acc, msgs, "fn_ok", 100000)
    _w.need(acc, msgs, "mono_pairs_compared", 30000)
    _w.need(acc, msgs, "sys_quotes_judged", 4000)
    _w.need(acc, msgs, "sys_swaps_judged", 3000)
    _w.need(acc, msgs, "exotic_swaps_ok", 100)
    if not any(k.startswith("fn|") and k.endswith("c_edge") for k in acc.classes):
        msgs.append("edge commission rates never used")
    return msgs


RULE = ("function: (x,y,a,c) from the constructive residue families of C01 (window interior/borders, exact division, spread-division "
        "edges, abort edge, tiny products) with rates {0, 1e-18, 1-1e-18, 1, default, 18-digit random, steered so gross*c hits an integer "
        "edge}; offer pairs a<a' adjacent/near/far on the same reserves for monotonicity; system: pair Simulation answers and swap "
        "attributes judged against reserves read from the ledger, commission must stay in the pool. Class = (leg, family, outcome, "
        "magnitude buckets, rate class).")


def main(tier, seed):
    run_check(PROP, "mon.props.c06", tier, seed, floors, RULE, _w.ASSUME_WORLD[:1] + ["exact rational arithmetic by integer cross-multiplication in Python"])
