"""C17 — native-decimals updates reach every affected pair.

Registry worlds with 1..40 pairs, several denoms in first / second position, histories interleaving creations and re-registrations
(same value, new value, 0, 18, 255). After every update: factory NativeTokenDecimals, the factory record of every pair (walked through
the paginated query AND looked up directly) and every pair's own description must agree with a Python model (denom -> decimals) in
the denom's position; pairs not containing the denom must be bit-identical (storage digest)."""
from ..core import Server, sub_rng, run_check, Acc, HarnessFault
from ..regworld import RegWorld, info_to_asset
from . import _w

PROP = "C17"


def walk_all(rw):
    out, cursor = [], None
    for _ in range(200):
        r = rw.pairs_page(cursor, 30)
        if r["r"] != "ok":
            raise HarnessFault("pairs query failed: %r" % (r,))
        page = r["v"]["pairs"]
        if not page:
            return out
        out += page
        cursor = [info_to_asset(i) for i in page[-1]["asset_infos"]]
    return out


def digests(rw):
    addrs = [rec["addr"] for rec in rw.model.values()]
    rw.srv.send({"op": "track", "accounts": [], "denoms": [], "tokens": [], "contracts": addrs, "allowances": []})
    snap = rw.srv.send({"op": "snap"})["v"]
    return dict(zip(addrs, snap["dig"]))


def expected_decimals(rw, rec):
    return [rw.reg[a[1]] if a[0] == "n" else rec["decimals"][i] for i, a in enumerate(rec["assets"])]


def verify_all(rw, acc, denom, before_dig, before_rec, case):
    """every view must agree with the model; untouched pairs must be bit-identical."""
    probs = []
    r = rw.q(rw.factory, {"native_token_decimals": {"denom": denom}})
    if r["r"] != "ok" or r["v"]["decimals"] != rw.reg[denom]:
        probs.append("factory denom query says %r, registered %d" % (r.get("v"), rw.reg[denom]))
    listed = dict((frozenset(info_to_asset(i) for i in p["asset_infos"]), p) for p in walk_all(rw))
    after_dig = digests(rw)
    n_aff = 0
    for key, rec in rw.model.items():
        exp = expected_decimals(rw, rec)
        affected = ("n", denom) in rec["assets"]
        n_aff += affected
        views = {}
        lk = rw.lookup(*rec["assets"])
        if lk["r"] == "ok":
            views["factory lookup"] = lk["v"]
        else:
            probs.append("lookup of %s failed" % rec["addr"])
        lr = rw.lookup(rec["assets"][1], rec["assets"][0])
        if lr["r"] == "ok":
            views["factory lookup (assets in reverse order)"] = lr["v"]
        else:
            probs.append("reverse-order lookup of %s failed" % rec["addr"])
        if key in listed:
            views["factory listing"] = listed[key]
        else:
            probs.append("pair %s missing from the listing" % rec["addr"])
        sd = rw.pair_self(rec["addr"])
        if sd["r"] == "ok":
            views["pair self-description"] = sd["v"]
        for name, v in views.items():
            order = [info_to_asset(i) for i in v["asset_infos"]]
            exp_v = [exp[rec["assets"].index(a)] for a in order]
            if v["asset_decimals"] != exp_v:
                probs.append("%s of %s (%s) reports decimals %s, expected %s" % (
                    name, rec["addr"], [a[1] for a in order], v["asset_decimals"], exp_v))
        if not affected:
            if before_dig.get(rec["addr"]) != after_dig.get(rec["addr"]):
                probs.append("pair %s does not contain %s but its storage changed" % (rec["addr"], denom))
            if before_rec.get(key) is not None and views.get("factory lookup") != before_rec.get(key):
                probs.append("factory record of unaffected pair %s changed" % rec["addr"])
    return probs, n_aff


def run_registry(acc, srv, key, target_pairs, star=False):
    rng = sub_rng(*key)
    if star:
        # one denom shared by (almost) every pair: more than 30 pairs containing the same denom
        rw = RegWorld(srv, rng, n_tokens=7, n_families=4, all_extras=True)
    else:
        rw = RegWorld(srv, rng, n_families=rng.choice([2, 3, 4]))
    A = rw.assets()
    regd = [d for d in rw.denoms if d in rw.reg]
    hot = rng.sample(regd, min(len(regd), rng.choice([2, 3])))     # denoms that will be re-registered
    for d in regd:
        if d in rw.tokens and d not in hot:
            hot.append(d)    # a native denom spelled exactly like a live cw20 address
    mixed = [d for d in regd if d.lower() != d and d not in hot]
    if mixed:
        hot.append(rng.choice(mixed))   # denoms are case-sensitive: re-register one with upper-case letters too
    if star:
        hot = hot[:1]
    step = 0
    updates = 0
    while step < target_pairs * 4 and (len(rw.model) < target_pairs or updates < (6 if star else 3)):
        step += 1
        if rng.random() < (0.97 if star else 0.78) and len(rw.model) < target_pairs:
            # creation, biased to contain a hot denom in first or second position
            h = ("n", rng.choice(hot))
            other = rng.choice([a for a in A if a != h and rw.valid(a)])
            a0, a1 = (h, other) if rng.random() < 0.5 else (other, h)
            if rng.random() < 0.15 and not star:
                a0, a1 = rng.sample([a for a in A if rw.valid(a)], 2)
            if frozenset([a0, a1]) in rw.model:
                continue
            resp, rec = rw.create(a0, a1, None, ["owner"], (0, 0))
            if resp["r"] == "ok":
                rw.model[frozenset([a0, a1])] = rec
                rw.order.append(frozenset([a0, a1]))
                if rng.random() < 0.5:
                    # half of the pairs hold liquidity: an update must reach funded pairs as well as empty ones
                    fr = rw.fund(rec, (rng.choice([1000, 5000]), rng.choice([1000, 7000])))
                    acc.count("pairs_funded" if fr["r"] == "ok" else "pair_funding_failed")
            continue
        if not rw.model:
            continue
        if rng.random() < 0.08 and len(rw.model) >= 3:
            rw.kill_token(rng, acc)
        if rw.broken and rng.random() < 0.7:
            # pairs that were out of order are migrated back: whatever happened meanwhile, they must agree with the registry again
            rw.repair_pairs(acc)
            if not rw.broken:
                d0 = rng.choice(sorted(rw.reg))
                probs, _ = verify_all(rw, acc, d0, digests(rw), {}, {})
                acc.ev()
                if probs:
                    acc.violation("after pairs that had been migrated to foreign code were migrated back: %s" % "; ".join(probs[:3]),
                                  {"kind": "registry", "world_key": list(key), "step": step})
        elif not rw.broken and rng.random() < 0.1 and len(rw.model) >= 2:
            rw.break_pair(rng, acc)
        if rng.random() < 0.5:
            # administrative actions before the update: pair migrations, another pair code id for future pairs, the factory's own
            # migration, direct (unauthorised) update messages: the update after them must still reach every affected pair
            for _ in range(rng.choice([1, 1, 2])):
                rw.admin_noise(rng, acc, kind=rng.choice(["migrate_pair", "update_config_code", "migrate_factory",
                                                          "owner_direct_update", "stranger_direct_update"]))
        denom = rng.choice(hot if rng.random() < 0.85 else regd)
        newdec = rng.choice([rw.reg[denom], 0, 6, 18, 255, rng.randrange(0, 256), (rw.reg[denom] + 1) % 256])
        before_dig = digests(rw)
        before_rec = dict((k, (lambda r: r["v"] if r["r"] == "ok" else None)(rw.lookup(*rec["assets"]))) for k, rec in rw.model.items())
        if rng.random() < 0.12:
            # the registration names the denom with blanks around it: ANOTHER string, no pair trades it
            _, r, padded = rw.admin_noise(rng, acc, kind="padded_denom")
            if padded is None:
                continue
            denom, newdec = padded, rw.reg[padded]
        else:
            r = rw.x("owner", rw.factory, {"add_native_token_decimals": {"denom": denom, "decimals": newdec}})
        acc.ev()
        case = {"kind": "registry", "world_key": list(key), "step": step, "denom": denom, "new_decimals": newdec,
                "pairs": len(rw.model), "result": r["r"], "error": r.get("e", "")[:160] if r["r"] != "ok" else None}
        if r["r"] != "ok":
            acc.count("updates_rejected")
            acc.cls("rejected", len(rw.model) // 5)
            continue
        rw.reg[denom] = newdec
        for rec in rw.model.values():
            rec["dec_updated"] = True
        updates += 1
        probs, n_aff = verify_all(rw, acc, denom, before_dig, before_rec, case)
        pos = set()
        for rec in rw.model.values():
            if ("n", denom) in rec["assets"]:
                pos.add(rec["assets"].index(("n", denom)))
        acc.cls("update", "pairs%d" % (len(rw.model) // 5 * 5), "aff%d" % (n_aff // 5 * 5), "pos" + "".join(str(p) for p in sorted(pos)),
                "same" if newdec == case["new_decimals"] and False else "val%d" % (0 if newdec == 0 else (255 if newdec == 255 else 1)))
        acc.count("updates_ok")
        if n_aff > 10:
            acc.count("updates_with_more_than_10_affected")
        if n_aff > 30:
            acc.count("updates_with_more_than_30_affected")
        if len(rw.model) > 10:
            acc.count("updates_with_more_than_10_pairs")
        if len(rw.model) > 30 and n_aff >= 1:
            acc.count("updates_with_more_than_30_pairs")
        if probs:
            acc.violation("after re-registering %s with %d decimals (%d pairs, %d affected): %s"
                          % (denom, newdec, len(rw.model), n_aff, "; ".join(probs[:3])), case)
        elif len(acc.samples) < acc.max_samples:
            acc.sample({"denom": denom, "new_decimals": newdec, "pairs": len(rw.model), "affected": n_aff})
    acc.count("registries")
    return rw


def run_long(acc, srv, key, n_updates):
    """a small registry, a very long history of re-registrations of its denoms (counters anywhere must not run out)"""
    rng = sub_rng(*key)
    rw = RegWorld(srv, rng, n_families=2)
    regd = [d for d in rw.denoms if d in rw.reg]
    a, b = rng.sample(regd, 2)
    others = [x for x in rw.assets() if rw.valid(x) and x[1] not in (a, b)]
    for a0, a1 in [(("n", a), ("n", b)), (("n", a), rng.choice(others)), (rng.choice(others), ("n", b))]:
        if frozenset([a0, a1]) in rw.model:
            continue
        resp, rec = rw.create(a0, a1, None, ["owner"], (0, 0))
        if resp["r"] == "ok":
            rw.model[frozenset([a0, a1])] = rec
            rw.order.append(frozenset([a0, a1]))
    done = 0
    for i in range(n_updates):
        denom = a if i % 2 == 0 else b
        newdec = (rw.reg[denom] + 1 + (i % 3)) % 19
        full = (i % 16 == 15) or i == n_updates - 1
        before_dig = digests(rw) if full else {}
        r = rw.x("owner", rw.factory, {"add_native_token_decimals": {"denom": denom, "decimals": newdec}})
        acc.ev()
        case = {"kind": "registry", "world_key": list(key), "step": i, "denom": denom, "new_decimals": newdec, "pairs": len(rw.model)}
        if r["r"] != "ok":
            acc.violation("re-registration #%d of %s (a registered denom, by the owner) failed: %s" % (i + 1, denom, r.get("e", "")[:160]), case)
            break
        rw.reg[denom] = newdec
        done += 1
        if full:
            probs, _ = verify_all(rw, acc, denom, before_dig, {}, case)
        else:
            probs = []
            for rec in rw.model.values():
                sd = rw.pair_self(rec["addr"])
                if sd["r"] == "ok" and sd["v"]["asset_decimals"] != expected_decimals(rw, rec):
                    probs.append("pair %s reports %s, expected %s" % (rec["addr"], sd["v"]["asset_decimals"], expected_decimals(rw, rec)))
        if probs:
            acc.violation("after re-registration #%d (%s -> %d): %s" % (i + 1, denom, newdec, "; ".join(probs[:3])), case)
            break
    acc.count("long_history_updates", done)
    acc.cls("long_history", "n%d" % (done // 100 * 100))


def run_shard(acc, prop, tier, seed, shard, nshards, **kw):
    srv = Server()
    try:
        n = 4 if tier == "quick" else 600
        rw = None
        for wi in range(n):
            from .. import core as _core
            if _core.skip_world(wi):
                continue
            rng = sub_rng("n", seed, PROP, tier, shard, wi)
            if (wi == 2 and shard % 4 == 0) or (tier == "thorough" and wi % 40 == 2):
                run_long(acc, srv, (seed, PROP, tier, shard, wi, "long"), 600 if tier == "quick" else 1100)
                continue
            tp = rng.choice([3, 8, 12, 14, 20, 33, 40]) if wi else 40
            if wi == 1:
                tp = 38
            rw = run_registry(acc, srv, (seed, PROP, tier, shard, wi), tp, star=(wi == 1))
        # canary: corrupt the model and expect the verifier to object
        denom = [d for d in rw.reg if any(("n", d) in rec["assets"] for rec in rw.model.values())] if rw is not None else []
        if denom:
            d = denom[0]
            save = rw.reg[d]
            rw.reg[d] = (save + 1) % 256
            probs, _ = verify_all(rw, Acc(), d, digests(rw), {}, {})
            rw.reg[d] = save
            if probs:
                acc.count("canary_fired")
    finally:
        srv.close()


def floors(acc, tier):
    msgs = []
    if acc.counters.get("canary_fired", 0) < 14:
        msgs.append("canary silent (%d)" % acc.counters.get("canary_fired", 0))
    _w.need(acc, msgs, "updates_ok", 300)
    _w.need(acc, msgs, "pairs_funded", 200)
    _w.need(acc, msgs, "updates_with_more_than_10_affected", 40)
    _w.need(acc, msgs, "updates_with_more_than_30_pairs", 20)
    _w.need(acc, msgs, "updates_with_more_than_30_affected", 8)
    _w.need(acc, msgs, "admin_noise_update_config_code_ok", 20)
    _w.need(acc, msgs, "admin_noise_migrate_pair_ok", 20)
    _w.need(acc, msgs, "admin_noise_padded_denom_err", 20)
    _w.need(acc, msgs, "long_history_updates", 1500)
    _w.need(acc, msgs, "admin_noise_kill_token_ok", 5)
    _w.need(acc, msgs, "admin_noise_break_pair_ok", 5)
    _w.need(acc, msgs, "admin_noise_repair_pair_ok", 5)
    if not any("|pos01|" in k for k in acc.classes):
        msgs.append("no update where the denom sat in both positions across pairs")
    return msgs


RULE = ("registry worlds grown to 3..40 pairs, most containing one of 2-3 'hot' denoms in first or second position, interleaved with "
        "re-registrations of hot (and other) denoms with values {same, 0, 6, 18, 255, random u8, +1}. After EVERY successful update: factory denom "
        "query, direct lookup and paginated listing record of every pair, and every pair's own Pair{} must report the model's decimals in each "
        "asset's position; pairs not containing the denom must keep their storage digest and factory record. Class = (registry size bucket, "
        "affected-pairs bucket, positions of the denom, value class).")


def main(tier, seed):
    run_check(PROP, "mon.props.c17", tier, seed, floors, RULE,
              ["cw-multi-test 0.16.1 + cw20-base 1.0.0 stand in for the chain", "Python dict denom -> decimals is the reference"])
