"""C10 — a swap that succeeds honours max_spread and belief_price.

Function level on assert_max_spread with decimals (0..18)^2, half of the cases placed within a few units of the limit;
system level: quote -> 0..3 foreign operations -> swap guarded with belief_price / max_spread derived from the stale quote."""
from .. import gen, monitors
from ..core import D, M128, Server, sub_rng, run_check
from . import _w

PROP = "C10"
WEIGHTS = {"swap": 40, "swap_window": 2, "route": 6, "provide": 8, "withdraw": 5, "donate": 6, "swap_malformed": 0,
           "provide_malformed": 0, "unauth": 0, "transfer": 0, "lp_transfer": 0, "lp_burn": 0, "route_bad": 0,
           "intent": 40, "add_decimals": 3}


def factory(w, a):
    return [monitors.C10(w, a)]


def _guarded(st):
    return st.op["kind"] == "swap" and st.op["sem"].get("well_formed") and st.op["sem"].get("max_spread") is not None


def corrupt_accept(world, st):
    """a swap the guard rejected, presented as a success with the would-be amounts"""
    if not _guarded(st) or st.ok or "Max spread assertion" not in st.res.get("e", ""):
        return None
    sim = monitors.sim_of(st)
    if not sim or sim[0] == "fail":
        return None
    p = st.op["sem"]["pair"]
    sem = st.op["sem"]
    i = p.idx(sem["named"])
    # the statement leaves a one-unit band in which both outcomes are allowed: only corrupt clear cases
    if monitors.guard_verdict(sem.get("belief"), sem["max_spread"], sem["named_amt"], sim[0], sim[1], p.decimals[i], p.decimals[1 - i], "ok") is None:
        return None
    st.res = {"r": "ok", "v": {"events": [{"ty": "wasm", "a": [["_contract_addr", p.addr], ["action", "swap"],
                                                                  ["return_amount", str(sim[0])], ["spread_amount", str(sim[1])],
                                                                  ["commission_amount", str(sim[2])]]}]}}
    return st


def corrupt_reject(world, st):
    """a comfortable success presented as a guard rejection"""
    if not _guarded(st) or not st.ok or st.op["sem"]["max_spread"] < 10 ** 16 or st.op["sem"].get("belief") is not None:
        return None
    sim = monitors.sim_of(st)
    if not sim or sim[0] == "fail" or sim[1] * 1000 > sim[0]:
        return None
    p = st.op["sem"]["pair"]
    sem = st.op["sem"]
    i = p.idx(sem["named"])
    if monitors.guard_verdict(None, sem["max_spread"], sem["named_amt"], sim[0], sim[1], p.decimals[i], p.decimals[1 - i], "guard") is None:
        return None
    st.res = {"r": "err", "e": "Max spread assertion\x1fx"}
    return st


CORR = {"guard_rejection_accepted": corrupt_accept, "comfortable_swap_rejected": corrupt_reject}


def dec_pair(rng):
    r = rng.random()
    if r < 0.04:
        # decimals beyond 18 exist (a native denom can be registered with any u8)
        return rng.choice([(19, 0), (0, 19), (20, 0), (0, 20), (38, 18), (18, 39), (255, 0), (0, 255), (255, 255), (30, 30)])
    if r < 0.3:
        d = rng.randrange(0, 19)
        return d, d
    if r < 0.6:
        return rng.choice([(6, 18), (18, 6), (6, 8), (8, 6), (0, 18), (18, 0), (6, 0), (0, 6)])
    return rng.randrange(0, 19), rng.randrange(0, 19)


def fn_case(rng):
    do, dr = dec_pair(rng)
    fo, fr = 10 ** max(dr - do, 0), 10 ** max(do - dr, 0)
    s = rng.choice([0, 1, 10 ** 15, 10 ** 16, 5 * 10 ** 16, 5 * 10 ** 17, D - 1, D, D + 1, 2 * D, rng.randrange(0, D + 1),
                    rng.randrange(0, D + 1), rng.randrange(0, D + 1),
                    # limits far above 100 %: multiples of 2^64 plus a remainder, anything up to u128::MAX
                    (rng.randrange(1, 1 << 40) << 64) + rng.randrange(0, D + 1), rng.getrandbits(rng.randrange(61, 129)), M128])
    mode = rng.random()
    offer = gen.amount128(rng, rng.choice([8, 20, 40, 60, 64, 80, 100]))
    if mode < 0.5:
        # belief price, return placed around the two limits of the property
        bp = rng.choice([1, 10 ** rng.randrange(0, 30), rng.getrandbits(rng.randrange(1, 100)) or 1, D, D + 1, D - 1,
                         rng.getrandbits(rng.randrange(100, 129)) or 1, M128, (1 << 64) + rng.randrange(0, D), 0])
        o1 = offer * fo
        e_num, e_den = o1 * D, max(bp, 1)            # e = e_num/e_den (bp = 0 is sent as it is; the oracle does not judge it)
        if rng.random() < 0.75:
            base = rng.choice([e_num * max(D - s, 0) // (e_den * D), max(e_num - e_den, 0) * max(D - s - 1, 0) // (e_den * D),
                               e_num // e_den])
            r1 = max(0, base + rng.randrange(-3, 4))
            ret = r1 // fr + rng.choice([0, 0, 1]) if fr > 1 else r1
        else:
            ret = gen.amount128(rng)
        spread = rng.choice([0, gen.amount128(rng, 20)])
        ret, spread = min(ret, M128), min(spread, M128)
        return (bp, s if rng.random() < 0.95 else None, offer, ret, spread, do, dr), "belief"
    ret = gen.amount128(rng, rng.choice([1, 8, 20, 40, 60, 64, 80, 100]))
    if rng.random() < 0.75 and s < D:
        # spread ~ s*ret/(1-s)
        spread = max(0, s * ret // max(1, D - s) + rng.randrange(-3, 4))
    else:
        spread = rng.choice([0, 1, gen.amount128(rng, 40), ret])
    if rng.random() < 0.03:
        ret, spread = 0, 0
    return (None if rng.random() < 0.9 else rng.getrandbits(70) + 1, s if rng.random() < 0.97 else None, offer,
            min(ret, M128), min(spread, M128), do, dr), "spread"


def fn_leg(acc, srv, rng, n):
    from ..core import dropped_groups
    if "fn_guards" in dropped_groups():
        acc.count("fn_leg_skipped_adapter_built_without_fn_guards")
        return
    cases = [fn_case(rng) for _ in range(n)]
    reqs = [("assert_max_spread", [None if c[0] is None else str(c[0]), None if c[1] is None else str(c[1]),
                                   str(c[2]), str(c[3]), str(c[4]), c[5], c[6]]) for c, _ in cases]
    for (c, tag), rq, resp in zip(cases, reqs, srv.calls(reqs)):
        bp, s, offer, ret, spread, do, dr = c
        if bp is not None and s is None:
            tag = "belief_only"
        outcome = "ok" if resp["r"] == "ok" else ("guard" if resp.get("e") == "Max spread assertion" else "other")
        acc.ev()
        acc.cls("fn", tag, outcome, "do%s" % ("<" if do < dr else (">" if do > dr else "=")), gen.bucket(offer), gen.bucket(ret),
                "s" + gen.bucket(s or 0))
        acc.count("fn_" + outcome)
        v = monitors.guard_verdict(bp if s is not None else None, s, offer, ret, spread, do, dr, outcome) if not (bp is not None and s is None) else (
            "guard rejected without max_spread" if outcome == "guard" else None)
        case = {"kind": "fn", "f": "assert_max_spread", "a": rq[1], "observed": resp, "family": tag}
        if v:
            acc.violation("assert_max_spread(belief=%s, max_spread=%s, offer=%d, return=%d, spread=%d, decimals=(%d,%d)) -> %s: %s"
                          % (bp, s, offer, ret, spread, do, dr, outcome, v), case)
        elif len(acc.samples) < 3 and outcome != "other":
            acc.sample(case)


def run_shard(acc, prop, tier, seed, shard, nshards, **kw):
    srv = Server(log=False)
    try:
        fn_leg(acc, srv, sub_rng(seed, PROP, tier, shard, "fn"), 25000 if tier == "quick" else 800000)
    finally:
        srv.close()
    _w.shard(acc, PROP, tier, seed, shard, nshards, factory, WEIGHTS, (10, (140, 220)), (260, (140, 300)), CORR)


def floors(acc, tier):
    msgs = _w.canary_floor(acc, CORR)
    for k in ("fn_ok", "fn_guard"):
        _w.need(acc, msgs, k, 30000)
    _w.need(acc, msgs, "sys_guarded_ok", 1500)
    _w.need(acc, msgs, "sys_guarded_guard_reject", 800)
    for o in ("do<", "do>", "do="):
        for fam in ("belief", "spread"):
            if not any(k.startswith("fn|" + fam + "|") and ("|" + o + "|") in k for k in acc.classes):
                msgs.append("fn family %s never saw decimals ordering %s" % (fam, o))
    stale = set(k.split("|")[4] for k in acc.classes if k.startswith("sys|"))
    if len(stale - {"stale-"}) < 3:
        msgs.append("stale-quote depths seen: %s" % sorted(stale))
    return msgs


RULE = ("function: assert_max_spread over belief price / spread-only / belief-only, asset decimals (0..18)^2, about 75% of cases placed "
        "within +-3 units of the limit of the property (return' ~ e(1-s), ~ (e-1)(1-s-1e-18), ~ e; spread ~ s*r/(1-s)); system: swaps "
        "guarded with belief_price = offer/quoted_return (decimals-normalised) and small max_spread executed 0..3 foreign operations "
        "after the quote (other traders' swaps, donations, provisions, decimals re-registration); would-be amounts of rejected swaps are "
        "taken from the pair's Simulation in the same state. Class = (level, family, outcome ok/guard/other, decimals ordering, buckets, staleness).")


def main(tier, seed):
    run_check(PROP, "mon.props.c10", tier, seed, floors, RULE, _w.ASSUME_WORLD[:1] + ["exact rationals by integer cross-multiplication",
              "only the guard's own error text 'Max spread assertion' counts as a guard verdict; other failures are counted, not judged"])
