"""System-level monitors: each consumes Step events (op, ledger before, ledger after, result, quotes)
of a world history and judges its property from the ledger — never from the implementation."""
from math import isqrt

from . import known
from .core import D, M128
from .gen import bucket
from .world import attr_events, err_text
from .wrun import op_brief


def case_of(world, st, **extra):
    c = {"kind": "world", "world_key": list(world.key), "step": st.idx, "op": op_brief(st.op),
         "result": st.res.get("r"), "error": err_text(st.res)[:300] if st.res.get("r") != "ok" else None}
    c.update(extra)
    return c


def pair_state(p, led):
    r0, r1 = p.reserves(led)
    return r0, r1, p.supply(led)


class Monitor:
    def __init__(self, world, acc):
        self.w, self.acc = world, acc
        self.prev_actor = None
        self.prev_kind = None

    def interleave(self, st):
        """count distinct (previous foreign op kind -> op kind) patterns"""
        a, k = st.op["actor"], st.op["kind"]
        if self.prev_actor is not None and self.prev_actor != a:
            self.acc.cls("interleave", self.prev_kind, k)
            self.acc.count("interleaved_steps")
        self.prev_actor, self.prev_kind = a, k


# ---------------------------------------------------------------------------


class C03(Monitor):
    """r0*r1/S^2 never decreases while S>0 — every step of every history."""

    def on_step(self, st):
        w, acc = self.w, self.acc
        self.interleave(st)
        acc.ev()
        window = None
        for p in w.pairs:
            r0, r1, S = pair_state(p, st.pre)
            q0, q1, S2 = pair_state(p, st.post)
            if (r0, r1, S) == (q0, q1, S2):
                continue
            if S > 0 and S2 > 0:
                acc.cls(st.op["kind"], p.kind(), st.res["r"], bucket(S), bucket(max(r0, r1)),
                        "rate" + bucket(p.rate))
                acc.count("pair_state_changes_with_supply")
                if q0 * q1 * S * S < r0 * r1 * S2 * S2:
                    if window is None:
                        window = known.step_window_pairs(w, st)
                    if p.addr in window:
                        acc.known_hit("C01-window", case_of(w, st, pair=p.addr, before=[str(r0), str(r1), str(S)],
                                                            after=[str(q0), str(q1), str(S2)]))
                    else:
                        acc.violation("LP share value decreased on %s: (r0,r1,S) %s -> %s by %s"
                                      % (p.addr, (r0, r1, S), (q0, q1, S2), st.op["kind"]),
                                      case_of(w, st, pair=p.addr, before=[str(r0), str(r1), str(S)],
                                              after=[str(q0), str(q1), str(S2)]))
                elif len(acc.samples) < acc.max_samples:
                    acc.sample({"op": st.op["kind"], "pair_kind": p.kind(), "before": [str(r0), str(r1), str(S)],
                                "after": [str(q0), str(q1), str(S2)]})


class C01(Monitor):
    """system level: a successful swap never lowers the reserve product nor empties the ask reserve."""

    def on_step(self, st):
        w, acc = self.w, self.acc
        if st.op["kind"] not in ("swap", "route", "route_bad") or not st.ok:
            return
        evs = known.swap_events(w, st)
        if not evs:
            return
        window = known.step_window_pairs(w, st)
        touched = {}
        for e in evs:
            touched.setdefault(e[0].addr, e[0])
        entry = st.op["sem"].get("entry") or ("router_" + ("n" if st.op["sem"].get("entry_asset", ("n",))[0] == "n" else "t"))
        for p in touched.values():
            acc.ev()
            r0, r1 = p.reserves(st.pre)
            q0, q1 = p.reserves(st.post)
            acc.cls("sys", p.kind(), entry, bucket(r0 * r1), "win" if p.addr in window else "nowin")
            acc.count("sys_swaps_" + p.kind() + "_" + entry)
            bad = None
            if q0 * q1 < r0 * r1:
                bad = "reserve product fell: %d*%d -> %d*%d" % (r0, r1, q0, q1)
            else:
                # the asset paid out: the one whose reserve fell
                for i in (0, 1):
                    before, after = (r0, r1)[i], (q0, q1)[i]
                    if after < before and after == 0:
                        bad = "ask reserve emptied: %d -> 0 (offer reserve before: %d)" % (before, (r0, r1)[1 - i])
            if bad:
                if p.addr in window:
                    acc.known_hit("C01-window", case_of(w, st, pair=p.addr, detail=bad))
                else:
                    acc.violation("swap on %s: %s" % (p.addr, bad), case_of(w, st, pair=p.addr, detail=bad))
            elif len(acc.samples) < acc.max_samples:
                acc.sample({"level": "system", "pair_kind": p.kind(), "entry": entry,
                            "before": [str(r0), str(r1)], "after": [str(q0), str(q1)]})


class C02(Monitor):
    """swap settlement moves exactly the declared asset and amounts."""

    def on_step(self, st):
        w, acc = self.w, self.acc
        op = st.op
        if op["kind"] != "swap":
            return
        sem = op["sem"]
        p = sem["pair"]
        named, v = sem["named"], sem["named_amt"]
        cell = sem.get("cell", "wellformed/" + sem["entry"])
        acc.ev()
        acc.cls(p.kind(), cell, st.res["r"])
        acc.count("cells_attempted")
        if not st.ok:
            return
        acc.count("swaps_succeeded_" + ("wellformed" if sem.get("well_formed") else "malformed_cell"))
        actor = op["actor"]
        receiver = sem["to"] or actor
        case = lambda **kw: case_of(w, st, **kw)
        if named not in p.assets:
            acc.violation("swap naming a non-pair asset succeeded", case())
            return
        other = p.other(named)
        evs = [e for e in attr_events(st.res) if e.get("action") == "swap" and e.get("_contract_addr") == p.addr]
        if len(evs) != 1:
            acc.violation("successful swap without exactly one swap event", case())
            return
        try:
            rho = int(evs[0]["return_amount"])
            offer_attr = int(evs[0]["offer_amount"])
        except (KeyError, ValueError):
            acc.violation("swap attributes missing", case())
            return
        # what the trader actually delivered in this transaction
        delivered = {}
        if sem["entry"] == "direct":
            for d, a in sem["funds"]:
                delivered[d] = delivered.get(d, 0) + a
        else:
            delivered[sem["delivered"][1]] = sem["delivered_amt"]
        pre, post = st.pre, st.post
        dl = lambda acct, asset: post.get(acct, asset[1]) - pre.get(acct, asset[1])
        problems = []
        if delivered.get(named[1], 0) != v:
            problems.append("priced as offering %d of %s but the trader delivered %d of it (delivered: %s)"
                            % (v, named[1], delivered.get(named[1], 0), delivered))
        exp = {}

        def add(acct, aid, d):
            exp[(acct, aid)] = exp.get((acct, aid), 0) + d
        for aid, a in delivered.items():
            add(actor, aid, -a)
            add(p.addr, aid, a)
        add(p.addr, other[1], -rho)
        add(receiver, other[1], rho)
        untracked = set(w.junk_denoms) | set(w.digit_denoms.values())    # worthless padding coins: not in the ledger
        for (acct, aid), d in exp.items():
            if aid in untracked:
                continue
            got = post.get(acct, aid) - pre.get(acct, aid)
            if got != d:
                problems.append("balance of %s in %s changed by %d, settlement implies %d" % (acct, aid, got, d))
        if offer_attr != v:
            problems.append("reported offer_amount %d != named %d" % (offer_attr, v))
        if problems:
            acc.violation("swap settlement mismatch: " + "; ".join(problems[:4]), case(return_amount=str(rho)))
        elif len(acc.samples) < acc.max_samples:
            acc.sample({"pair_kind": p.kind(), "cell": cell, "named": named[1], "amount": str(v),
                        "return": str(rho), "receiver": receiver})


class C04(Monitor):
    """withdrawal pays the pro-rata share: never more, at most dust less; takes nothing from anyone else."""

    def on_step(self, st):
        w, acc = self.w, self.acc
        op = st.op
        if op["kind"] == "withdraw_via_token":
            self.via_token(st)
            return
        if op["kind"] == "freeze_token":
            acc.ev()
            acc.cls("freeze_token", "freeze" if op.get("freeze") else "restore", st.res["r"])
            acc.count("token_%s_%s" % ("freezes" if op.get("freeze") else "restores", st.res["r"]))
            return
        if op["kind"] != "withdraw":
            return
        p, a, holder = op["sem"]["pair"], op["sem"]["amount"], op["actor"]
        if any(t[1] in w.frozen for t in p.assets):
            acc.count("withdrawals_while_a_pool_token_is_frozen_" + st.res["r"])
        pre, post = st.pre, st.post
        r0, r1, S = pair_state(p, pre)
        acc.ev()
        rel = "a=S-ish" if a * 2 > S else ("a<<S" if a * (1 << 20) < S else "mid")
        acc.cls(p.kind(), st.res["r"], rel, "S" + bucket(S), "r" + bucket(max(r0, r1)),
                "Svs_r:" + ("lt" if S < min(r0, r1) else ("gt" if S > max(r0, r1) else "mid"))
                + ("/S<<rmax" if (S << 20) < max(r0, r1) else "") + ("/S>>rmin" if S > (min(r0, r1) << 20) else ""))
        if not st.ok:
            acc.count("withdraw_failed")
            return
        acc.count("withdraw_ok")
        problems = []
        x = []
        for i, (asset, r) in enumerate(zip(p.assets, (r0, r1))):
            xi = post.get(holder, asset[1]) - pre.get(holder, asset[1])
            x.append(xi)
            if xi < 0:
                problems.append("holder lost asset %d" % i)
                continue
            if xi * S > r * a:
                problems.append("asset %d: paid %d > pro-rata %d*%d/%d" % (i, xi, r, a, S))
            if not ((xi + 1) * S * D + r * S > r * a * D):
                problems.append("asset %d: paid %d, more than dust below pro-rata %d*%d/%d" % (i, xi, r, a, S))
            rem = (r * a) % S
            acc.cls("edge", "exact" if rem == 0 else ("lo" if rem * 4 < S else "hi"))
        exp = {(holder, p.lp): -a, (holder, p.assets[0][1]): x[0], (holder, p.assets[1][1]): x[1],
               (p.addr, p.assets[0][1]): -x[0], (p.addr, p.assets[1][1]): -x[1]}
        exp = dict((k, v) for k, v in exp.items() if v != 0)
        diff = pre.diff(post)
        got = dict((k, v[1] - v[0]) for k, v in diff.items())
        if got != exp:
            problems.append("ledger delta %s differs from the withdrawal's own cells %s" % (
                dict((k, str(v)) for k, v in got.items() if exp.get(k) != v),
                dict((k, str(v)) for k, v in exp.items() if got.get(k) != v)))
        if post.supply[p.lp] - S != -a:
            problems.append("LP supply changed by %d, burned %d" % (post.supply[p.lp] - S, a))
        for t, s_ in pre.supply.items():
            if t != p.lp and post.supply[t] != s_:
                problems.append("supply of %s changed" % t)
        if problems:
            acc.violation("withdrawal of %d/%d on %s: %s" % (a, S, p.addr, "; ".join(problems[:4])),
                          case_of(w, st, reserves=[str(r0), str(r1)], supply=str(S), paid=[str(v) for v in x]))
        elif len(acc.samples) < acc.max_samples:
            acc.sample({"pair_kind": p.kind(), "reserves": [str(r0), str(r1)], "supply": str(S), "burn": str(a),
                        "paid": [str(v) for v in x]})


    def via_token(self, st):
        """withdraw_liquidity delivered by a cw20 other than the LP token: whatever the outcome, no LP may be burnt that the
        caller did not give up, and nobody may be paid out of the reserves"""
        w, acc = self.w, self.acc
        op = st.op
        p, a, tok, actor = op["sem"]["pair"], op["sem"]["amount"], op["sem"]["token"], op["actor"]
        acc.ev()
        acc.cls("via_token", p.kind(), "pairtok" if tok in p.assets else "foreign", st.res["r"],
                "parked" if st.pre.get(p.addr, p.lp) >= a else "noparked")
        acc.count("withdraw_via_other_token_" + st.res["r"])
        if not st.ok:
            return
        probs = []
        dS = st.post.supply[p.lp] - st.pre.supply[p.lp]
        dlp = st.post.get(actor, p.lp) - st.pre.get(actor, p.lp)
        if dS != dlp:
            probs.append("LP supply changed by %d while the caller's LP balance changed by %d" % (dS, dlp))
        for i, asset in enumerate(p.assets):
            gain = st.post.get(actor, asset[1]) - st.pre.get(actor, asset[1]) + (a if asset == tok else 0)
            if gain > 0:
                probs.append("caller was paid %d of asset %d without redeeming LP of its own" % (gain, i))
        if probs:
            acc.violation("withdraw hook delivered by %s (not the LP token of %s) was accepted: %s" % (tok[1], p.addr, "; ".join(probs)),
                          case_of(w, st))


class C05(Monitor):
    """provision mints a fair share and pulls exactly the declared deposits."""

    def on_step(self, st):
        w, acc = self.w, self.acc
        op = st.op
        if op["kind"] not in ("provide", "provide_malformed"):
            return
        sem = op["sem"]
        p = sem["pair"]
        actor = op["actor"]
        receiver = sem["receiver"] or actor
        d = sem["amounts"]
        pre, post = st.pre, st.post
        r0, r1, S = pair_state(p, pre)
        acc.ev()
        mode = "first" if S == 0 else "later"
        acc.cls(p.kind(), mode, st.res["r"], "S" + bucket(S), "d" + bucket(max(d)),
                "wl%d" % len(p.whitelist), "recv" if sem["receiver"] else "self",
                op["kind"])
        if not st.ok:
            acc.count("provide_failed_" + mode)
            return
        acc.count("provide_ok_" + mode)
        problems = []
        if op["kind"] == "provide_malformed" and sem.get("mal_mode") == "wrong_asset":
            problems.append("provision naming an asset that is not in the pair succeeded")
        S2 = post.supply[p.lp]
        m = post.get(receiver, p.lp) - pre.get(receiver, p.lp)
        exp = {}

        def add(k, v):
            if v:
                exp[k] = exp.get(k, 0) + v
        for i in (0, 1):
            add((actor, p.assets[i][1]), -d[i])
            add((p.addr, p.assets[i][1]), d[i])
        # extra unrelated coins attached stay with the pair (not part of this property): account for them
        named_nat = dict((p.assets[i][1], d[i]) for i in (0, 1) if p.assets[i][0] == "n")
        for dn, a in sem["funds"]:
            if dn not in named_nat:
                add((actor, dn), -a)
                add((p.addr, dn), a)
        if S > 0:
            r = (r0, r1)
            if m < 1:
                problems.append("minted %d < 1" % m)
            for i in (0, 1):
                if m * r[i] > d[i] * S:
                    problems.append("minted %d > d%d*S/r%d = %d*%d/%d" % (m, i, i, d[i], S, r[i]))
            # min_i(d_i*S/r_i) - 1 < m  <=>  for the minimising i: (m+1)*r_i > d_i*S
            if r0 > 0 and r1 > 0:
                imin = 0 if d[0] * S * r1 <= d[1] * S * r0 else 1
                if not ((m + 1) * r[imin] > d[imin] * S):
                    problems.append("minted %d, a whole unit or more below min share %d*%d/%d"
                                    % (m, d[imin], S, r[imin]))
                rem = (d[imin] * S) % r[imin]
                acc.cls("edge", "exact" if rem == 0 else ("lo" if rem * 4 < r[imin] else "hi"), "argmin%d" % imin)
            if S2 - S != m:
                problems.append("supply changed by %d, minted %d" % (S2 - S, m))
            add((receiver, p.lp), m)
        else:
            if actor not in p.whitelist:
                problems.append("first provision by non-whitelisted %s succeeded" % actor)
            if d[0] < p.mins[0] or d[1] < p.mins[1]:
                problems.append("first provision below minimums %s succeeded with %s" % (p.mins, d))
            if S2 != isqrt(d[0] * d[1]):
                problems.append("initial supply %d != isqrt(d0*d1) = %d" % (S2, isqrt(d[0] * d[1])))
            add((p.lp, p.lp), 1)
            add((receiver, p.lp), S2 - 1)
            want_self = 1 + (S2 - 1 if receiver == p.lp else 0)   # the caller may designate the LP token itself as receiver
            if post.get(p.lp, p.lp) != want_self:
                problems.append("reserved unit: LP token address holds %d of itself, expected %d" % (post.get(p.lp, p.lp), want_self))
        got = dict((k, v[1] - v[0]) for k, v in pre.diff(post).items())
        if got != exp:
            problems.append("ledger delta %s differs from declared %s" % (
                dict((k, str(v)) for k, v in got.items() if exp.get(k) != v),
                dict((k, str(v)) for k, v in exp.items() if got.get(k) != v)))
        if problems:
            acc.violation("provision %s into %s (reserves %s, supply %d): %s" % (d, p.addr, (r0, r1), S, "; ".join(problems[:4])),
                          case_of(w, st, reserves=[str(r0), str(r1)], supply=str(S), minted=str(m)))
        elif len(acc.samples) < acc.max_samples:
            acc.sample({"pair_kind": p.kind(), "mode": mode, "reserves": [str(r0), str(r1)], "supply": str(S),
                        "deposits": [str(x) for x in d], "minted_to_receiver": str(m), "receiver": receiver})


class C07(Monitor):
    """operations never touch third-party balances and conserve token totals."""
    SKIP = ("lp_burn", "lp_transfer")  # direct cw20-base calls on the LP token: environment operations

    def on_step(self, st):
        w, acc = self.w, self.acc
        op = st.op
        kind = op["kind"]
        if kind in self.SKIP:
            return
        acc.ev()
        pre, post = st.pre, st.post
        actor = op["actor"]
        sem = op.get("sem", {})
        addressed = set()
        receiver = None
        if kind in ("swap", "provide", "provide_malformed", "withdraw"):
            addressed.add(sem["pair"].addr)
            receiver = sem.get("to") or sem.get("receiver")
        elif kind in ("route", "route_bad"):
            addressed.add(w.router)
            for (o, a) in sem["hops"]:
                p = w.pair_for(o, a)
                if p:
                    addressed.add(p.addr)
            receiver = sem.get("to")
        elif kind in ("donate", "transfer"):
            receiver = sem["target"]
        elif kind in ("unauth", "add_decimals", "admin", "owner_admin", "matrix"):
            addressed.add(op["contract"])   # the contract the message is sent to (it may keep attached coins); nobody else
        # a contract that is neither pair nor router (the factory, a token) is a third party even when a message is addressed to
        # it: the only change the platform itself makes to it is the arrival of exactly the coins attached to the message
        strict = None
        if kind in ("unauth", "add_decimals", "admin", "owner_admin", "matrix") and op["contract"] != w.router and \
           op["contract"] not in [p_.addr for p_ in w.pairs] and op["contract"] != actor:
            strict = op["contract"]
            attached = {}
            for d_, a_ in (op.get("funds") or []):
                attached[w.denom_key(d_)] = attached.get(w.denom_key(d_), 0) + int(a_)
        lp_of = dict((p.lp, p) for p in w.pairs)
        problems = []
        diff = pre.diff(post)
        nchanged = 0
        if strict is not None and st.ok:
            for aid, amt in attached.items():
                if aid in [w.denom_key(x) for x in w.t_denoms] and post.get(strict, aid) - pre.get(strict, aid) != amt:
                    problems.append("%s (addressed, neither pair nor router) changed by %d in %s, %d were attached"
                                    % (strict, post.get(strict, aid) - pre.get(strict, aid), aid, amt))
        for (acct, aid), (b, a_) in diff.items():
            nchanged += 1
            if strict is not None and acct == strict:
                if a_ - b != attached.get(aid, 0):
                    problems.append("%s (addressed, neither pair nor router) changed by %d in %s, %d were attached"
                                    % (strict, a_ - b, aid, attached.get(aid, 0)))
                continue
            if acct == actor or acct in addressed:
                continue
            if acct == receiver:
                if a_ < b:
                    problems.append("designated receiver %s lost %d of %s" % (acct, b - a_, aid))
                continue
            if aid in lp_of and acct == aid and a_ - b == 1 and pre.supply[aid] == 0 and kind in ("provide", "provide_malformed") and lp_of[aid].addr in addressed:
                continue  # the reserved unit, first provision only
            problems.append("third-party cell (%s, %s) changed %d -> %d" % (acct, aid, b, a_))
        # conservation of natives
        for dn in w.t_denoms:
            dk = w.denom_key(dn)
            s0 = sum(pre.bal[(a, dk)] for a in w.t_accounts)
            s1 = sum(post.bal[(a, dk)] for a in w.t_accounts)
            if s0 != s1:
                problems.append("sum of %s balances changed %d -> %d" % (dn, s0, s1))
        for t in w.t_tokens:
            ds = post.supply[t] - pre.supply[t]
            if t in lp_of:
                p = lp_of[t]
                if ds != 0:
                    if not st.ok:
                        problems.append("LP supply of %s changed on a failed operation" % p.addr)
                    elif kind in ("provide", "provide_malformed") and sem["pair"] is p and ds > 0:
                        rcv = sem["receiver"] or actor
                        minted = (post.get(rcv, t) - pre.get(rcv, t)) + ((post.get(t, t) - pre.get(t, t)) if rcv != t else 0)
                        if ds != minted:
                            problems.append("LP supply +%d but minted %d" % (ds, minted))
                    elif kind == "withdraw" and sem["pair"] is p and ds == -sem["amount"]:
                        pass
                    else:
                        problems.append("LP supply of %s changed by %d through %s" % (p.addr, ds, kind))
                # cells must add up to supply
            else:
                if ds != 0:
                    problems.append("total supply of %s changed by %d" % (t, ds))
            tot = sum(post.bal[(a, t)] for a in w.t_accounts)
            if tot != post.supply[t]:
                problems.append("balances of %s sum to %d but supply is %d (untracked holder?)" % (t, tot, post.supply[t]))
        if pre.allow != post.allow:
            problems.append("a bystander's allowance changed")
        if not st.ok and not pre.same_as(post):
            problems.append("failed operation changed state")
        acc.cls(kind, st.res["r"], "recv" if receiver else "norecv", "chg%d" % min(nchanged, 8),
                sem["pair"].kind() if "pair" in sem else "-")
        if nchanged:
            acc.count("steps_with_balance_changes")
        if problems:
            acc.violation("%s by %s: %s" % (kind, actor, "; ".join(problems[:4])), case_of(w, st))
        elif len(acc.samples) < acc.max_samples and nchanged:
            acc.sample({"op": kind, "actor": actor, "receiver": receiver, "addressed": sorted(addressed),
                        "changed_cells": [[k[0], k[1], str(v[1] - v[0])] for k, v in list(diff.items())[:8]]})


class C09(Monitor):
    """declared native amounts must equal the attached funds exactly."""

    @staticmethod
    def declared_natives(op):
        sem = op["sem"]
        declared = []
        if op["kind"] == "swap":
            if sem["named"][0] == "n":
                declared.append((sem["named"][1], sem["named_amt"]))
        else:
            pair_denoms = set(x[1] for x in sem["pair"].assets if x[0] == "n")
            for a in op["msg"]["provide_liquidity"]["assets"]:
                if "native_token" in a["info"]:
                    declared.append((a["info"]["native_token"]["denom"], int(a["amount"])))
                elif a["info"].get("token", {}).get("contract_addr") in pair_denoms:
                    # the pair's native coin named by its denom, only wrapped in the other JSON shape: it is still the
                    # native asset that gets credited if the call is accepted
                    declared.append((a["info"]["token"]["contract_addr"], int(a["amount"])))
        return declared

    def on_step(self, st):
        w, acc = self.w, self.acc
        op = st.op
        kind = op["kind"]
        if kind not in ("swap", "provide", "provide_malformed"):
            return
        sem = op["sem"]
        p = sem["pair"]
        declared = self.declared_natives(op)
        entry = sem["entry"] if kind == "swap" else "provide"
        if not declared:
            return
        attached = {}
        for d, a in sem["funds"]:
            attached[d] = attached.get(d, 0) + a
        acc.ev()
        rels = []
        for dn, v in declared:
            a = attached.get(dn)
            rels.append("absent" if a is None else ("eq" if a == v else ("less" if a < v else "more")) + ("0" if v == 0 else ""))
        extra = any(d not in dict(declared) for d in attached)
        acc.cls(entry, p.kind(), "+".join(rels), "extra" if extra else "noextra", st.res["r"])
        acc.count("grid_cells_attempted")
        if st.ok:
            acc.count("succeeded")
            for dn, v in declared:
                if attached.get(dn, 0) != v:
                    acc.violation("%s succeeded declaring %d %s with %d attached" % (entry, v, dn, attached.get(dn, 0)),
                                  case_of(w, st))
                    return
            if len(acc.samples) < acc.max_samples:
                acc.sample({"entry": entry, "declared": [[d, str(v)] for d, v in declared],
                            "attached": [[d, str(v)] for d, v in attached.items()], "outcome": "ok"})
        else:
            if any(attached.get(dn, 0) != v for dn, v in declared):
                acc.count("mismatch_rejected")
            if not st.pre.same_as(st.post):
                acc.violation("failed %s changed state" % entry, case_of(w, st))


# ---------------------------------------------------------------------------
# quotes, guards, router


def sim_of(st, idx=0):
    """decoded pair Simulation quote taken in the same state, or None / ('fail', text)"""
    if len(st.quotes) <= idx:
        return None
    q = st.quotes[idx]
    if q["r"] != "ok":
        return ("fail", q.get("e", ""))
    try:
        return (int(q["v"]["return_amount"]), int(q["v"]["spread_amount"]), int(q["v"]["commission_amount"]))
    except (KeyError, ValueError, TypeError):
        return ("fail", "undecodable")


def band_problems(x, y, a, c, n, spread, comm):
    """C06 oracle on one (reserves, offer, rate) -> (n, spread, commission)."""
    probs = []
    s = x + a
    if s == 0:
        return probs
    # g(1-c) - 1 < n < g(1-c) + 1   with g = y*a/s, c = c/D   (all scaled by s*D)
    lhs = y * a * (D - c)
    if not (lhs - s * D < n * s * D < lhs + s * D):
        probs.append("return %d outside g(1-c)±1 (g=%d*%d/%d, c=%d/1e18)" % (n, y, a, s, c))
    if comm != (c * (n + comm)) // D:
        probs.append("commission %d != floor(c*(n+commission)) = %d" % (comm, (c * (n + comm)) // D))
    if x > 0 and n + comm + spread != (a * y) // x:
        probs.append("n+commission+spread = %d != floor(a*y/x) = %d" % (n + comm + spread, (a * y) // x))
    return probs


class C06(Monitor):
    """system level: Simulation responses and swap attributes obey the constant-product band; commission stays in the pool."""

    def on_step(self, st):
        w, acc = self.w, self.acc
        op = st.op
        if op["kind"] == "swap" and st.ok and op["sem"]["named"] not in op["sem"]["pair"].assets:
            self.outside_offer(st)
            return
        if op["kind"] != "swap":
            return
        sem = op["sem"]
        p = sem["pair"]
        donated = 0
        if not C12.same_offer(op):
            # a direct swap that attaches, next to the exactly declared offer, some of the pair's OTHER coin: that coin is a
            # donation arriving in the same transaction, so the swap is priced against (x, y + donation); the quote taken
            # before it is not comparable, the execution is
            if sem["named"] not in p.assets or sem.get("entry") != "direct" or not st.ok:
                return
            other_ = p.other(sem["named"])
            got = dict()
            for d_, a_ in sem.get("funds", []):
                got[d_] = got.get(d_, 0) + a_
            if sem["named"][0] != "n" or got.get(sem["named"][1], 0) != sem["named_amt"] or other_[0] != "n" or not got.get(other_[1]):
                return
            donated = got[other_[1]]
            acc.count("sys_swaps_with_the_other_coin_attached")
        i = p.idx(sem["named"])
        r = p.reserves(st.pre)
        x, y, a = r[i], r[1 - i] + donated, sem["named_amt"]
        sim = sim_of(st) if not donated else None
        if sim and sim[0] != "fail":
            acc.ev()
            acc.cls("sim", p.kind(), bucket(x), bucket(y), bucket(a), "c" + bucket(p.rate))
            acc.count("sys_quotes_judged")
            probs = band_problems(x, y, a, p.rate, *sim)
            if probs:
                acc.violation("Simulation on %s x=%d y=%d a=%d: %s" % (p.addr, x, y, a, "; ".join(probs)), case_of(w, st))
        if st.ok:
            evs = [e for e in attr_events(st.res) if e.get("action") == "swap" and e.get("_contract_addr") == p.addr]
            if len(evs) == 1:
                acc.ev()
                acc.count("sys_swaps_judged")
                e = evs[0]
                n, sp, cm = int(e["return_amount"]), int(e["spread_amount"]), int(e["commission_amount"])
                probs = band_problems(x, y, a, p.rate, n, sp, cm)
                other = p.other(sem["named"])
                dpair = st.post.get(p.addr, other[1]) - st.pre.get(p.addr, other[1]) - donated
                rcv = sem["to"] or op["actor"]
                if rcv != p.addr and dpair != -n:
                    probs.append("ask reserve changed by %d, not by -return (%d): commission did not stay in the pool" % (dpair, n))
                acc.cls("exec", p.kind(), sem["entry"], bucket(x), bucket(a))
                if probs:
                    acc.violation("swap on %s x=%d y=%d a=%d: %s" % (p.addr, x, y, a, "; ".join(probs)), case_of(w, st))


    def outside_offer(self, st):
        """a swap message naming an asset the pair does not trade was ACCEPTED: judged like every other swap, against the
        pair's actual holdings x of the named asset and y of the asset it paid out (the unchanged code rejects them all)"""
        w, acc = self.w, self.acc
        op, sem = st.op, st.op["sem"]
        p = sem["pair"]
        named, a = sem["named"], sem["named_amt"]
        evs = [e for e in attr_events(st.res) if e.get("action") == "swap" and e.get("_contract_addr") == p.addr]
        acc.ev()
        acc.count("sys_outside_offers_accepted")
        key = w.denom_key(named[1]) if named[0] == "n" else named[1]
        x = st.pre.get(p.addr, key)
        probs = []
        if len(evs) != 1:
            probs.append("no single swap event")
        else:
            n, sp, cm = int(evs[0]["return_amount"]), int(evs[0]["spread_amount"]), int(evs[0]["commission_amount"])
            r = p.reserves(st.pre)
            paid = [j for j in (0, 1) if st.post.get(p.addr, p.assets[j][1]) < st.pre.get(p.addr, p.assets[j][1])] or [0, 1]
            for j in paid:
                probs += band_problems(x, r[j], a, p.rate, n, sp, cm)
            if x == 0 and not probs:
                probs.append("priced against an offer reserve the pair does not hold")
        if probs:
            acc.violation("swap of %s (not an asset of %s, which held %d of it) was accepted: %s" % (named[1], p.addr, x, "; ".join(probs[:3])),
                          case_of(w, st))


class C12(Monitor):
    """forward: Simulation == execution (attributes and ledger), same state; router sims == fold of pair sims."""

    @staticmethod
    def same_offer(op):
        """is this swap 'a swap of the same offer' as the Simulation of (named asset, named amount) taken before it?
        Well-formed swaps are; so is ANY swap message naming a pair asset, unless the caller attaches coins of a pair asset
        beyond the named offer (a donation in the same transaction legitimately moves the price)."""
        sem = op["sem"]
        if sem.get("well_formed"):
            return True
        p = sem["pair"]
        if sem["named"] not in p.assets:
            return False
        ids = set(a[1] for a in p.assets)
        for d, a in sem.get("funds", []):
            if d in ids and not (d == sem["named"][1] and a == sem["named_amt"]):
                return False
        return True

    def on_step(self, st):
        w, acc = self.w, self.acc
        op = st.op
        if op["kind"] == "swap" and self.same_offer(op):
            sem = op["sem"]
            p = sem["pair"]
            sim = sim_of(st)
            if sim is None:
                return
            acc.ev()
            acc.cls("fwd", p.kind(), sem["entry"], "dir%d" % p.idx(sem["named"]), st.res["r"],
                    "simfail" if sim[0] == "fail" else "simok", bucket(sem["named_amt"]))
            if not st.ok:
                return
            acc.count("fwd_swaps_compared")
            if sim[0] == "fail":
                acc.violation("swap succeeded but the simulation of the same offer in the same state failed: %s" % sim[1][:100],
                              case_of(w, st))
                return
            evs = [e for e in attr_events(st.res) if e.get("action") == "swap" and e.get("_contract_addr") == p.addr]
            if len(evs) != 1:
                acc.violation("no single swap event", case_of(w, st))
                return
            e = evs[0]
            got = (int(e["return_amount"]), int(e["spread_amount"]), int(e["commission_amount"]))
            probs = []
            if got != sim:
                probs.append("executed (return,spread,commission)=%s but simulated %s" % (got, sim))
            other = p.other(sem["named"])
            rcv = sem["to"] or op["actor"]
            if rcv != p.addr:
                d_r = st.post.get(rcv, other[1]) - st.pre.get(rcv, other[1])
                if d_r != sim[0]:
                    probs.append("receiver got %d, simulation said %d" % (d_r, sim[0]))
                d_p = st.post.get(p.addr, other[1]) - st.pre.get(p.addr, other[1])
                if d_p != -sim[0]:
                    probs.append("pair paid %d, simulation said %d" % (-d_p, sim[0]))
            if probs:
                acc.violation("quote/execution mismatch on %s: %s" % (p.addr, "; ".join(probs)), case_of(w, st))
            elif len(acc.samples) < acc.max_samples:
                acc.sample({"pair_kind": p.kind(), "entry": sem["entry"], "offer": str(sem["named_amt"]),
                            "simulated": [str(v) for v in sim], "executed": [str(v) for v in got]})


class Router(Monitor):
    """C11 (minimum_receive or full revert) and C13 (pure pass-through, delivers the quote). `which` selects."""

    def __init__(self, world, acc, which):
        Monitor.__init__(self, world, acc)
        self.which = which

    def on_step(self, st):
        w, acc = self.w, self.acc
        op = st.op
        if op["kind"] not in ("route", "route_bad"):
            return
        self.interleave(st)
        sem = op["sem"]
        hops = sem["hops"]
        actor = op["actor"]
        rcp = actor if sem["to"] is None else sem["to"]      # (an empty string is a given, invalid, recipient)
        amount = sem["amount"]
        entry = sem["entry_asset"]
        pre, post = st.pre, st.post
        final = hops[-1][1] if hops else None
        pairs = [w.pair_for(o, a) for o, a in hops]
        special_rcp = rcp == w.router or rcp in [p.addr for p in w.pairs]
        m = sem.get("min")
        acc.ev()
        q = st.quotes[0] if st.quotes else None
        quote = int(q["v"]["amount"]) if (q and q["r"] == "ok") else None
        mrel = "none" if m is None else ("?" if quote is None else ("lt" if m < quote else ("eq" if m == quote else "gt")))
        acc.cls(self.which, len(hops), "n" if entry[0] == "n" else "t", st.res["r"], "m" + mrel,
                "rcp_" + ("self" if rcp == actor else ("contract" if special_rcp else "other")),
                sem.get("bad_mode", "chain"), "stale%s" % sem.get("stale", "-"),
                "cycle" if (hops and final == hops[0][0]) else ("revisit" if (hops and final in [a for _, a in hops[:-1]]) else "open"))
        if hops and final in [a for _, a in hops[:-1]] and st.ok:
            acc.count("routes_ok_revisiting_final_asset")
        if not st.ok:
            acc.count("routes_failed")
            if not pre.same_as(post):
                acc.violation("failed route changed state", case_of(w, st))
            elif self.which == "C13":
                why = self.must_deliver(st, hops, pairs, actor, rcp, amount, entry, m, quote, special_rcp)
                if why is True:
                    acc.violation("accepted route %s by %s quoted %s by the router reverted: %s"
                                  % ([(o[1], a[1]) for o, a in hops], actor, quote, err_text(st.res)[:160]),
                                  case_of(w, st, quote=str(quote)))
                else:
                    acc.count("revert_explained_" + str(why))
            if self.which == "C11" and m is not None and quote is not None and m > quote:
                acc.count("reverted_because_below_minimum")
            return
        acc.count("routes_ok_%dhop" % len(hops))
        probs = []
        if not hops:
            acc.violation("empty route succeeded", case_of(w, st))
            return
        d_final = post.get(rcp, final[1]) - pre.get(rcp, final[1])
        paid = 0
        if rcp == actor and entry == final:
            paid += amount
        for (p_, offer_id, a_, ret, spread, comm) in known.swap_events(w, st):
            if p_.addr == rcp and p_.assets[0][1] != offer_id and p_.assets[0] == final:
                paid += ret
            elif p_.addr == rcp and p_.assets[1][1] != offer_id and p_.assets[1] == final:
                paid += ret
        if self.which == "C11":
            if m is not None:
                acc.count("ok_with_minimum")
                if d_final + paid < m:
                    probs.append("recipient %s got %d (+%d paid by itself) of the final asset < minimum_receive %d"
                                 % (rcp, d_final, paid, m))
        else:
            # C13 preconditions
            distinct = all(pairs) and len(set(p.addr for p in pairs)) == len(pairs)
            router_clean = all(pre.get(w.router, a[1]) == 0 for h in hops for a in h)
            entry_ok = entry == hops[0][0]
            n_dangling = self.dangling(hops)
            if sem.get("bad_mode") in ("empty",) or n_dangling != 1:
                probs.append("route with %d dangling outputs was accepted" % n_dangling)
            if router_clean and entry_ok and not probs:
                # whatever the route looks like: an accepted route leaves nothing behind in a router that started empty
                for aid in sorted(set(a[1] for h in hops for a in h)):
                    if post.get(w.router, aid) != 0 and not (rcp == w.router and aid == final[1]):
                        probs.append("router keeps %d of %s" % (post.get(w.router, aid), aid))
                if not all(pairs):
                    probs.append("a route with a hop for which no pair is registered was executed")
            if distinct and router_clean and entry_ok and not probs:
                acc.count("c13_precondition_met")
                if quote is None:
                    probs.append("route executed but the router's simulation of it failed in the same state")
                elif rcp == w.router:
                    # the router itself is the designated recipient: it must end up holding exactly the quote
                    if post.get(w.router, final[1]) != quote:
                        probs.append("recipient is the router: it holds %d of the final asset, quoted %d" % (post.get(w.router, final[1]), quote))
                elif not special_rcp:
                    if d_final + paid != quote:
                        probs.append("recipient got %d (+%d own payment) but the router quoted %d" % (d_final, paid, quote))
                for aid in sorted(set(a[1] for h in hops for a in h)):
                    if post.get(w.router, aid) != 0 and not (rcp == w.router and aid == final[1]):
                        probs.append("router keeps %d of %s" % (post.get(w.router, aid), aid))
                if not (rcp == actor):
                    if post.get(actor, entry[1]) - pre.get(actor, entry[1]) != -amount:
                        probs.append("sender's input asset changed by %d, not -%d" % (
                            post.get(actor, entry[1]) - pre.get(actor, entry[1]), amount))
                elif entry != final:
                    if post.get(actor, entry[1]) - pre.get(actor, entry[1]) != -amount:
                        probs.append("sender's input asset changed by %d, not -%d" % (
                            post.get(actor, entry[1]) - pre.get(actor, entry[1]), amount))
                if not special_rcp and rcp != actor:
                    for (acct, aid), (b, a_) in pre.diff(post).items():
                        if acct == rcp and aid != final[1]:
                            probs.append("recipient's %s changed (%d -> %d): only the final asset may reach it" % (aid, b, a_))
        if probs:
            acc.violation("route %s by %s: %s" % ([(o[1], a[1]) for o, a in hops], actor, "; ".join(probs[:4])),
                          case_of(w, st, quote=str(quote)))
        elif len(acc.samples) < acc.max_samples:
            acc.sample({"hops": [[o[1], a[1]] for o, a in hops], "input": str(amount), "minimum_receive": None if m is None else str(m),
                        "router_quote": None if quote is None else str(quote), "recipient": rcp,
                        "recipient_gain": str(d_final)})

    def must_deliver(self, st, hops, pairs, actor, rcp, amount, entry, m, quote, special_rcp):
        """True if nothing the router's contract allows to fail can explain this revert (then the route, which the router
        itself quotes, had to be delivered); otherwise a short reason. Evaluated in the unchanged post-failure state."""
        w = self.w
        if st.op["kind"] != "route" or not hops:
            return "badshape"
        if st.op["sem"].get("spelling"):
            return "non_normalised_address"   # the router may refuse an address that is not written in normal form
        if not all(pairs) or len(set(p.addr for p in pairs)) != len(pairs):
            return "pairs"
        if self.dangling(hops) != 1 or entry != hops[0][0]:
            return "shape"
        if quote is None:
            return "noquote"
        if special_rcp or rcp in w.t_contracts:
            return "recipient"
        if rcp not in w.t_accounts:
            return "invalid_recipient"
        if any(st.pre.get(w.router, a[1]) != 0 for h in hops for a in h):
            return "router_dirty"
        if amount <= 0 or st.pre.get(actor, entry[1]) < amount:
            return "funds"
        if m is not None and m > quote:
            return "minimum"
        cur = amount
        for k, ((o, a), p) in enumerate(zip(hops, pairs)):
            r = w.q(*w.q_sim(p, o, cur))
            if r["r"] != "ok":
                return "hop_sim_fails"
            ret, spread = int(r["v"]["return_amount"]), int(r["v"]["spread_amount"])
            i = p.idx(o)
            do, dr = p.decimals[i], p.decimals[1 - i]
            if abs(do - dr) > 19:
                return "decimals"
            if cur * 10 ** max(dr - do, 0) > M128 or max(ret, spread) * 10 ** max(do - dr, 0) > M128:
                return "normalisation_overflow"
            if ret == 0 and k < len(hops) - 1:
                return "zero_intermediate"
            cur = ret
        if cur != quote:
            return "fold_differs"
        if st.pre.get(rcp, hops[-1][1][1]) + cur > M128:
            return "balance_overflow"
        return True

    @staticmethod
    def dangling(hops):
        asks = {}
        for o, a in hops:
            asks.pop(o[1], None)
            asks[a[1]] = True
        return len(asks)


class C10(Monitor):
    """system level: a swap that succeeds honours max_spread / belief_price (guards derived from stale quotes)."""

    def on_step(self, st):
        w, acc = self.w, self.acc
        op = st.op
        if op["kind"] != "swap" or not op["sem"].get("well_formed"):
            return
        sem = op["sem"]
        s, bp = sem.get("max_spread"), sem.get("belief")
        if s is None:
            return
        self.interleave(st)
        p = sem["pair"]
        i = p.idx(sem["named"])
        # decimals as the pair reports them now (they can be re-registered during a history)
        do, dr = p.decimals[i], p.decimals[1 - i]
        offer = sem["named_amt"]
        guard_reject = (not st.ok) and err_text(st.res) == "Max spread assertion"
        if st.ok:
            evs = [e for e in attr_events(st.res) if e.get("action") == "swap" and e.get("_contract_addr") == p.addr]
            if len(evs) != 1:
                return
            ret, spread = int(evs[0]["return_amount"]), int(evs[0]["spread_amount"])
        else:
            sim = sim_of(st)
            if not sim or sim[0] == "fail":
                acc.count("sys_other_failure")
                return
            ret, spread = sim[0], sim[1]
        acc.ev()
        v = guard_verdict(bp, s, offer, ret, spread, do, dr, "ok" if st.ok else ("guard" if guard_reject else "unrelated"))
        acc.cls("sys", "belief" if bp is not None else "spreadonly", "ok" if st.ok else ("guard" if guard_reject else "other"),
                "do%s" % ("<" if do < dr else (">" if do > dr else "=")), "stale%s" % sem.get("stale", "-"), p.kind())
        acc.count("sys_guarded_" + ("ok" if st.ok else ("guard_reject" if guard_reject else "other")))
        if v:
            acc.violation("swap on %s offer=%d return=%d spread=%d belief=%s max_spread=%s decimals=(%d,%d): %s"
                          % (p.addr, offer, ret, spread, bp, s, do, dr, v), case_of(w, st))
        elif len(acc.samples) < acc.max_samples:
            acc.sample({"level": "system", "offer": str(offer), "return": str(ret), "spread": str(spread),
                        "belief_price_atomics": None if bp is None else str(bp), "max_spread_atomics": str(s),
                        "decimals": [do, dr], "outcome": st.res["r"], "stale_ops_since_quote": sem.get("stale")})


def guard_verdict(bp, s, offer, ret, spread, do, dr, outcome):
    """C10 oracle. bp, s: atomics (ints) or None; outcome: ok | guard | other. Returns None or a description."""
    o1 = offer * 10 ** max(dr - do, 0)
    r1 = ret * 10 ** max(do - dr, 0)
    sp1 = spread * 10 ** max(do - dr, 0)
    if s is None or outcome == "unrelated":      # (system level: a failure that cannot be attributed to the guard)
        return None
    if outcome == "other":
        # an abort INSIDE the guard (function level only) is a rejection by the guard. Outside its representable domain the
        # unchanged guard aborts too and is not judged: decimals 20 or more apart (10^diff as u64), normalised amounts beyond
        # 128 bits, a zero belief price, a zero return+spread.
        if abs(do - dr) >= 20 or max(o1, r1, sp1) > M128 or bp == 0 or (bp is None and r1 + sp1 == 0):
            return None
        if bp is not None:
            if r1 * bp * D >= o1 * D * (D - s):
                return "aborted inside the guard although return' %d >= (offer'/p)(1-s)" % r1
        elif sp1 * D <= s * (r1 + sp1):
            return "aborted inside the guard although spread/(return+spread) = %d/%d <= s" % (sp1, r1 + sp1)
        return None
    if bp is not None:
        if bp == 0:
            return None
        # e = o1 / (bp/D) = o1*D/bp
        if outcome == "ok":
            # e > 1 and s < 1  =>  r1 > (e-1)(1 - s - 1e-18)
            if o1 * D > bp and s < D:
                # r1 > (o1*D/bp - 1) * (D - s - 1)/D   <=>  r1*bp*D > (o1*D - bp)*(D - s - 1)
                if not (r1 * bp * D > (o1 * D - bp) * (D - s - 1)):
                    return "succeeded although return' %d <= (offer'/p - 1)(1 - s - 1e-18)" % r1
        elif outcome == "guard":
            # rejected only if r1 < e(1-s)  <=>  r1*bp*D < o1*D*(D - s)
            if not (r1 * bp * D < o1 * D * (D - s)):
                return "rejected by the guard although return' %d >= (offer'/p)(1-s)" % r1
        return None
    tot = r1 + sp1
    if tot == 0:
        return None
    if outcome == "ok":
        # spread/(return+spread) < s + 1e-18
        if not (sp1 * D < (s + 1) * tot):
            return "succeeded although spread/(return+spread) = %d/%d >= s + 1e-18" % (sp1, tot)
    elif outcome == "guard":
        if not (sp1 * D > s * tot):
            return "rejected by the guard although spread/(return+spread) = %d/%d <= s" % (sp1, tot)
    return None


def slippage_verdict(t, d0, d1, r0, r1, outcome):
    """C15 oracle. t atomics or None; outcome ok | guard | other."""
    if t is None:
        return None
    if t > D:
        return "tolerance above 100% was not rejected" if outcome == "ok" else None
    if outcome == "other" or d0 == 0 or d1 == 0 or r0 == 0 or r1 == 0:
        return None
    # (d0/d1)(1-t) < r0/r1 + 2e-18   <=>  d0*(D-t)*r1 < (r0*D + 2*r1)*d1   (scaled by d1*r1*D)
    a_ok = d0 * (D - t) * r1 < (r0 * D + 2 * r1) * d1
    b_ok = d1 * (D - t) * r0 < (r1 * D + 2 * r0) * d0
    if outcome == "ok":
        if not (a_ok and b_ok):
            return "succeeded outside the tolerance"
    elif outcome == "guard":
        # never rejected when both (d_i/d_j)(1-t) <= r_i/r_j - 1e-18
        a_in = d0 * (D - t) * r1 <= (r0 * D - r1) * d1
        b_in = d1 * (D - t) * r0 <= (r1 * D - r0) * d0
        if a_in and b_in:
            return "rejected by the guard although well inside the tolerance"
    return None


class C15(Monitor):
    """system level: provisions with a slippage tolerance after interleaved foreign swaps."""

    def on_step(self, st):
        w, acc = self.w, self.acc
        op = st.op
        if op["kind"] != "provide":
            return
        sem = op["sem"]
        t = sem.get("slippage")
        if t is None:
            return
        self.interleave(st)
        p = sem["pair"]
        r0, r1, S = pair_state(p, st.pre)
        d0, d1 = sem["amounts"]
        guard = (not st.ok) and err_text(st.res) == "Max slippage assertion"
        outcome = "ok" if st.ok else ("guard" if guard else "other")
        acc.ev()
        acc.cls("sys", p.kind(), outcome, "t" + bucket(t), "stale%s" % sem.get("stale", "-"), "S0" if S == 0 else "S+")
        acc.count("sys_tolerance_" + outcome)
        v = slippage_verdict(t, d0, d1, r0, r1, outcome)
        if v:
            acc.violation("provision (%d,%d) into (%d,%d) with tolerance %d/1e18 on %s: %s" % (d0, d1, r0, r1, t, p.addr, v),
                          case_of(w, st))
        elif len(acc.samples) < acc.max_samples:
            acc.sample({"level": "system", "deposits": [str(d0), str(d1)], "reserves_before": [str(r0), str(r1)],
                        "tolerance_atomics": str(t), "outcome": outcome})


class C20(Monitor):
    """liquidity can always be withdrawn: entitled withdrawals must succeed (one-step bounded progress)."""

    def on_step(self, st):
        w, acc = self.w, self.acc
        op = st.op
        if op["kind"] != "withdraw":
            return
        sem = op["sem"]
        p, a, holder = sem["pair"], sem["amount"], op["actor"]
        r0, r1, S = pair_state(p, st.pre)
        bal = st.pre.get(holder, p.lp)
        if a < 1 or a > bal or S == 0:
            return
        acc.ev()
        entitled = all(r * a * D >= (r + 2 * D) * S for r in (r0, r1))  # r*a/S >= r/D + 2
        hist = sem.get("after", "-")
        acc.cls(p.kind(), "entitled" if entitled else "below", st.res["r"], "r" + bucket(max(r0, r1)), "S" + bucket(S),
                "full" if a == bal else "part", hist)
        if entitled:
            acc.count("entitled_attempts")
            if not st.ok:
                acc.violation("entitled withdrawal of %d/%d LP (reserves %d,%d) by %s failed: %s"
                              % (a, S, r0, r1, holder, err_text(st.res)[:160]), case_of(w, st))
            elif len(acc.samples) < acc.max_samples:
                acc.sample({"pair_kind": p.kind(), "reserves": [str(r0), str(r1)], "supply": str(S), "burn": str(a),
                            "holder": holder, "outcome": "ok"})
        else:
            acc.count("below_threshold_" + st.res["r"])
