"""./check <ID> --replay <file>: deterministic re-execution of recorded violations.

fn-level cases: the recorded call is re-issued to a freshly built halosrv and the observation compared with the recorded one.
world / registry cases: the world is regenerated from its key (seed, property, tier, shard, world index) — every world has its own
RNG stream — and the property's monitor is run over it again; the violations it reports are printed."""
import importlib
import json
import sys

from . import core
from .core import Acc, Server, build_harness


def main(path):
    doc = json.load(open(path))
    prop, modname = doc["property"], doc["module"]
    build_harness()
    mod = importlib.import_module(modname)
    seen_worlds = set()
    reproduced = 0
    for v in doc["violations"]:
        case = v.get("case", {})
        print("recorded: %s" % v["what"][:400])
        if case.get("kind") == "fn":
            srv = Server(log=False)
            try:
                resp = srv.call(case["f"], case["a"])
            finally:
                srv.close()
            print("  re-issued %s(%s) -> %s" % (case["f"], json.dumps(case["a"])[:200], json.dumps(resp)[:300]))
            if "observed" in case and not isinstance(case["observed"], list):
                same = resp == case["observed"]
                print("  same observation as recorded: %s" % same)
                reproduced += same
        elif case.get("world_key"):
            key = tuple(case["world_key"])
            if key in seen_worlds:
                continue
            seen_worlds.add(key)
            seed, kprop, tier, shard, wi = key[:5]      # (longer keys only name a special world kind of that index)
            core.ONLY_WORLD = wi
            acc = Acc()
            mod.run_shard(acc, prop=prop, tier=tier, seed=seed, shard=shard, nshards=core.NSHARDS)
            core.ONLY_WORLD = None
            print("  regenerated world %s: %d violation(s)" % (list(key), len(acc.violations)))
            for w in acc.violations[:10]:
                print("    - %s" % w["what"][:400])
            reproduced += 1 if acc.violations else 0
    print("replay finished: %d item(s) reproduced" % reproduced)
    sys.exit(1 if reproduced else 0)
