"""Registry worlds: a factory with many registered / unregistered native denoms (shared prefixes, split points),
several cw20 tokens, and sequences of CreatePair / AddNativeTokenDecimals. A Python model keyed by the frozenset of
TYPED identifiers mirrors what must be registered."""
import json

from .core import D, HarnessFault
from .world import ainfo, dec_str

# valid cosmos denoms (>= 3 chars, [a-zA-Z][a-zA-Z0-9/:._-]*), built so that different splits concatenate equally:
#   abcd|efg == abc|defg ;  uaura|xyz == uaur|axyz ;  ibc/aa|bbcc == ibc/aab|bcc ; uluna|uusd == ulun|auusd
DENOM_FAMILIES = [
    ["abcd", "efg", "abc", "defg", "abcde", "fgh"],
    ["uaura", "xyz", "uaur", "axyz", "uaurax", "yzz"],
    ["ibc/aa", "bbcc", "ibc/aab", "bcc", "ibc/a", "abbcc"],
    ["uluna", "uusd", "ulun", "auusd", "ulunau", "usd"],
]
EXTRA = ["utaura", "contract3", "contract4", "contract40", "uatom", "aaa", "aaaa", "aaab", "zzz",
         # denoms are case-sensitive; real IBC vouchers carry upper-case hex
         "ibc/A1B2", "ibc/a1b2", "ibc/A1b2C3", "IBC/a1b2", "ibc/27394FB092D2ECCD56123C74F36E4C1F926001CEADA9CA97EA622B25F41E5EB2", "Uaura",
         # the whole legal charset [a-zA-Z][a-zA-Z0-9/:._-]
         "st-uatom", "factory/aura1xyz/my-token", "a.b_c", "x:y/z", "gamm/pool/1"]


class RegWorld:
    def __init__(self, srv, rng, n_tokens=3, n_families=None, all_extras=False):
        self.srv, self.rng = srv, rng
        fams = list(DENOM_FAMILIES)
        rng.shuffle(fams)
        fams = fams[:n_families or rng.choice([1, 2, 2, 3])]
        denoms = [d for f in fams for d in f] + (list(EXTRA) if all_extras else rng.sample(EXTRA, rng.randrange(3, 9)))
        rng.shuffle(denoms)
        self.denoms = denoms
        # some denoms are never registered with the factory
        self.unregistered = set(rng.sample(denoms, 1 if all_extras else rng.randrange(1, 3)))
        # of two denoms that differ only in letter case, (usually) exactly one is registered
        low = {}
        for d in denoms:
            low.setdefault(d.lower(), []).append(d)
        for group in low.values():
            if len(group) > 1 and rng.random() < 0.7:
                self.unregistered.add(rng.choice(group))
        srv.reset_log()
        r = srv.send({"op": "new", "balances": [["owner", d, "1000000000"] for d in denoms]})
        self.codes = r["v"]
        self.factory = self._inst("factory", {"pair_code_id": self.codes["pair"], "token_code_id": self.codes["cw20"]})
        self.tokens = []
        self.dead = set()
        self.remodelled = set()
        self.broken = set()
        self.true_dec = {}
        for i in range(n_tokens):
            dec = rng.choice([0, 6, 8, 18])
            t = self._inst("cw20", {"name": "token%d" % i, "symbol": "TK" + "ABCDEFGHIJ"[i], "decimals": dec,
                                    "initial_balances": [{"address": "owner", "amount": "1000000000"}], "mint": None})
            self.tokens.append(t)
            self.true_dec[("t", t)] = dec
        self.reg = {}      # denom -> decimals (model of the native registry)
        for d in denoms:
            if d in self.unregistered:
                continue
            dec = rng.choice([0, 6, 6, 8, 18])
            self.x("owner", self.factory, None, bank_to=self.factory, funds=[[d, "1"]])
            r = self.x("owner", self.factory, {"add_native_token_decimals": {"denom": d, "decimals": dec}})
            if r["r"] != "ok":
                raise HarnessFault("registration failed: %r" % (r,))
            self.reg[d] = dec
        self.model = {}    # frozenset(typed ids) -> record
        self.order = []    # creation order of keys

    NOISE = ["migrate_pair", "migrate_pair", "update_config_code", "owner_direct_update", "stranger_direct_update",
             "padded_denom", "migrate_factory"]

    def remodel_token(self, rng, acc):
        """a cw20's issuer migrates it to another cw20 implementation that reports OTHER decimals (the token stays alive). Pairs
        that exist keep what was recorded when they were created; pairs created from now on must record the new true decimals."""
        live = [t for t in self.tokens if t not in self.dead]
        if not live:
            return None
        t = rng.choice(live)
        new = rng.choice([x for x in (0, 3, 6, 9, 12, 18) if x != self.true_dec[("t", t)]])
        r = self.srv.send({"op": "migrate", "sender": "owner", "contract": t, "code": "ltoken", "msg": json.dumps({"decimals": new})})
        acc.ev()
        acc.cls("admin_noise", "remodel_token", r["r"])
        acc.count("admin_noise_remodel_token_" + r["r"])
        if r["r"] == "ok":
            self.true_dec[("t", t)] = new
            self.remodelled.add(t)
        return t

    def break_pair(self, rng, acc):
        """the owner migrates a pair to the ROUTER's code id by mistake (accepted: the router's migrate takes the empty message);
        until it is migrated back the pair answers nothing a pair answers"""
        cands = [rec for rec in self.model.values() if rec["addr"] not in self.broken]
        if not cands:
            return None
        rec = rng.choice(cands)
        r = self.x("owner", self.factory, {"migrate_pair": {"contract": rec["addr"], "code_id": self.codes["router"]}})
        acc.ev()
        acc.cls("admin_noise", "break_pair", r["r"])
        acc.count("admin_noise_break_pair_" + r["r"])
        if r["r"] == "ok":
            self.broken.add(rec["addr"])
        return rec

    def repair_pairs(self, acc):
        for addr in sorted(self.broken):
            r = self.x("owner", self.factory, {"migrate_pair": {"contract": addr, "code_id": self.codes["pair"]}})
            acc.count("admin_noise_repair_pair_" + r["r"])
            if r["r"] == "ok":
                self.broken.discard(addr)

    def kill_token(self, rng, acc):
        """a cw20's issuer migrates it to unrelated code: from then on it answers no token query. Pairs that trade it stay
        registered as they are, and everything that does not need the token must go on working (re-registrations included)."""
        live = [t for t in self.tokens if t not in self.dead]
        if len(live) < 2:
            return None
        t = rng.choice(live)
        r = self.srv.send({"op": "migrate", "sender": "owner", "contract": t, "code": "factory", "msg": "{}"})
        acc.ev()
        acc.cls("admin_noise", "kill_token", r["r"])
        acc.count("admin_noise_kill_token_" + r["r"])
        if r["r"] == "ok":
            self.dead.add(t)
        return t

    def admin_noise(self, rng, acc, kind=None):
        """administrative actions (and attempts) after which every registry record must still equal what was created / last
        registered and what the pair reports about itself. Returns (kind, response, padded denom registered or None)."""
        kind = kind or rng.choice(self.NOISE)
        recs = list(self.model.values())
        padded = None
        if kind in ("migrate_pair", "owner_direct_update", "stranger_direct_update") and not recs:
            kind = "update_config_code"
        if kind == "migrate_pair":
            rec = rng.choice(recs)
            r = self.x("owner", self.factory, {"migrate_pair": {"contract": rec["addr"],
                                                                "code_id": rng.choice([None, self.codes["pair2"], self.codes["pair"]])}})
        elif kind == "update_config_code":
            # pairs created from now on use the other (identical) pair code id; existing pairs stay what they are
            r = self.x("owner", self.factory, {"update_config": {"owner": None, "token_code_id": None,
                                                                 "pair_code_id": rng.choice([self.codes["pair2"], self.codes["pair"]])}})
        elif kind in ("owner_direct_update", "stranger_direct_update"):
            # the factory-to-pair message sent to a pair directly, by the factory's owner / by anybody
            rec = rng.choice(recs)
            nat = [a[1] for a in rec["assets"] if a[0] == "n"] or [rng.choice(self.denoms)]
            r = self.x("owner" if kind == "owner_direct_update" else "mallory", rec["addr"],
                       {"update_native_token_decimals": {"denom": rng.choice(nat), "asset_decimals": [rng.randrange(0, 19), rng.randrange(0, 19)]}})
        elif kind == "padded_denom":
            # a denom with blanks around it is ANOTHER string: registering it says nothing about the denom without blanks
            d = rng.choice(sorted(self.reg))
            padded = rng.choice([d + " ", " " + d, d + "\n", "\t" + d, " " + d + " "])
            dec = rng.choice([x for x in (0, 3, 6, 9, 18) if x != self.reg[d]])
            r = self.x("owner", self.factory, {"add_native_token_decimals": {"denom": padded, "decimals": dec}})
            if r["r"] == "ok":
                self.reg[padded] = dec
            else:
                padded = None
        else:
            # the factory's wasm admin migrates the factory itself (same code): nothing registered may get lost
            r = self.srv.send({"op": "migrate", "sender": "owner", "contract": self.factory, "code": "factory", "msg": "{}"})
        acc.ev()
        acc.cls("admin_noise", kind, r["r"])
        acc.count("admin_noise_" + kind + "_" + r["r"])
        return kind, r, padded

    def _inst(self, code, msg):
        r = self.srv.send({"op": "inst", "code": code, "sender": "owner", "msg": json.dumps(msg), "label": code,
                           "admin": "owner" if code in ("factory", "cw20") else None})
        if r["r"] != "ok":
            raise HarnessFault("instantiate failed: %r" % (r,))
        for e in r["v"]["events"]:
            if e["ty"] == "instantiate":
                return dict(e["a"])["_contract_addr"]

    def x(self, sender, contract, msg, bank_to=None, funds=None):
        if bank_to:
            return self.srv.send({"op": "bank", "from": sender, "to": bank_to, "funds": funds})
        return self.srv.send({"op": "exec", "sender": sender, "contract": contract,
                              "msg": json.dumps(msg, separators=(",", ":")), "funds": funds or []})

    def q(self, contract, msg):
        return self.srv.send({"op": "query", "contract": contract, "msg": json.dumps(msg, separators=(",", ":"))})

    def assets(self):
        return [("n", d) for d in self.denoms] + [("t", t) for t in self.tokens]

    def valid(self, a):
        if a[0] == "n":
            return a[1] in self.reg
        return a[1] in self.tokens and a[1] not in self.dead

    def decimals_of(self, a):
        return self.reg[a[1]] if a[0] == "n" else self.true_dec[a]

    def create(self, a0, a1, rate=None, whitelist=None, mins=(0, 0), lp_dec=None):
        msg = {"create_pair": {
            "asset_infos": [ainfo(a0), ainfo(a1)],
            "requirements": {"whitelist": whitelist or [], "first_asset_minimum": str(mins[0]), "second_asset_minimum": str(mins[1])},
            "commission_rate": None if rate is None else dec_str(rate),
            "lp_token_info": {"lp_token_name": "lptoken", "lp_token_symbol": "LPT", "lp_token_decimals": lp_dec}}}
        r = self.x("owner", self.factory, msg)
        rec = None
        if r["r"] == "ok":
            addr = lp = None
            for e in r["v"]["events"]:
                if e["ty"] == "wasm":
                    d = dict(e["a"])
                    if "pair_contract_addr" in d:
                        addr, lp = d["pair_contract_addr"], d["liquidity_token_addr"]
            rec = {"addr": addr, "lp": lp, "assets": (a0, a1), "rate": 3 * 10 ** 15 if rate is None else rate,
                   "whitelist": list(whitelist or []), "mins": [int(mins[0]), int(mins[1])],
                   "decimals": [self.decimals_of(a0) if self.valid(a0) else None, self.decimals_of(a1) if self.valid(a1) else None]}
        return r, rec

    def fund(self, rec, amounts=(1000, 1000)):
        """first provision by the owner (who must be whitelisted): the pair then holds liquidity and LP supply"""
        funds = []
        for a, amt in zip(rec["assets"], amounts):
            if a[0] == "t":
                self.x("owner", a[1], {"increase_allowance": {"spender": rec["addr"], "amount": str(amt)}})
            else:
                funds.append([a[1], str(amt)])
        msg = {"provide_liquidity": {"assets": [{"info": ainfo(a), "amount": str(amt)} for a, amt in zip(rec["assets"], amounts)],
                                     "slippage_tolerance": None, "receiver": None}}
        return self.x("owner", rec["addr"], msg, funds=sorted(funds))

    def lookup(self, a0, a1):
        return self.q(self.factory, {"pair": {"asset_infos": [ainfo(a0), ainfo(a1)]}})

    def pair_self(self, addr):
        return self.q(addr, {"pair": {}})

    def pairs_page(self, start_after=None, limit=None):
        return self.q(self.factory, {"pairs": {"start_after": None if start_after is None else [ainfo(start_after[0]), ainfo(start_after[1])],
                                               "limit": limit}})


def info_to_asset(info):
    if "native_token" in info:
        return ("n", info["native_token"]["denom"])
    return ("t", info["token"]["contract_addr"])


def rate_atomics(s):
    w, _, f = s.partition(".")
    return int(w) * D + int((f + "0" * 18)[:18] or 0)
