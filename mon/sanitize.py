"""Sanitizer legs (thorough tier of C08 and C18): differential replay of recorded request streams through an
instrumented halosrv.

The only `unsafe` reachable from the repository is in the dependency bigint-4.4.3 (mem::uninitialized + ptr::write
in U256 add/sub/mul, from_utf8_unchecked in Display). Two instrumented executions of the SAME adapter sources:

  * valgrind memcheck on the ordinary release binary: definedness tracking (every limb written before it is read),
    invalid reads/writes;
  * AddressSanitizer build on the nightly toolchain (/verif/harness-asan, -Zsanitizer=address): out-of-bounds and
    use-after-free in instrumented code, leaks at exit.

Streams replayed: the property's own function-level op stream (C08 arithmetic / C18 conversions), and the complete
request logs of a few seeded WORLD histories (so the bigint paths are also reached with the operands real contract
transactions produce). Oracle: zero sanitizer reports, exit status 0, and byte-identical output to the native run.

A report or a differing output is a VIOLATION (silently-wrong arithmetic / text is what C08 / C18 exclude). A leg that
cannot run (tool missing, nightly build fails, watchdog) is recorded as skipped in the evidence and never becomes a
verdict."""
import json
import os
import shutil
import subprocess
import tempfile
import time

from .core import SRV_BIN, VERIF, sub_rng, to_limbs, Acc, Server

N_PROCS = 16
CALLS_PER_PROC = 30000
WATCHDOG_S = 1200
ASAN_DIR = os.path.join(VERIF, "harness-asan")
ASAN_BIN = os.path.join(ASAN_DIR, "target", "x86_64-unknown-linux-gnu", "release", "halosrv")


def c08_stream(rng, n):
    from .props import c08
    ops = list(c08.OPS) + list(c08.SCALAR)
    out = []
    for i in range(n):
        op = ops[i % len(ops)]
        args, _ = c08.gen_case(rng, op)
        out.append({"op": "call", "f": op, "a": c08.encode_args(op, args)})
    return out


def c18_stream(rng, n):
    from .props import c18
    out = []
    vals = c18.dec_values(rng, n // 4)
    for v in vals:
        out.append({"op": "call", "f": "d_to_string", "a": [to_limbs(v)]})
        out.append({"op": "call", "f": "u_to_string", "a": [to_limbs(v)]})
        out.append({"op": "call", "f": "d_json_ser", "a": [to_limbs(v)]})
    for s in c18.random_strings(rng, n // 4):
        out.append({"op": "call", "f": "d_from_str", "a": [s]})
    return out


def world_logs(seed, prop, n_worlds, steps):
    """request lines of n seeded world histories (recorded from a native run, no monitors)"""
    from . import wrun
    lines = []
    srv = Server(log=True)
    try:
        for wi in range(n_worlds):
            w = wrun.run_world(Acc(), srv, (seed, prop, "sanitizer-world", wi), lambda w_, a_: [], None, steps)
            lines.append(list(srv.log))
    finally:
        srv.close()
    return lines


def build_asan():
    env = dict(os.environ)
    env["CARGO_NET_OFFLINE"] = "true"
    env["RUSTFLAGS"] = "-Zsanitizer=address -Cforce-frame-pointers=yes"
    try:
        r = subprocess.run(["cargo", "+nightly", "build", "--release", "--offline", "--target", "x86_64-unknown-linux-gnu"],
                           cwd=ASAN_DIR, env=env, stdout=subprocess.PIPE, stderr=subprocess.STDOUT, text=True, timeout=1500)
    except (OSError, subprocess.TimeoutExpired):
        return False
    return r.returncode == 0 and os.path.exists(ASAN_BIN)


def _write_streams(tmp, prop, seed):
    files = []
    for i in range(N_PROCS):
        rng = sub_rng(seed, prop, "sanitizer", i)
        stream = c08_stream(rng, CALLS_PER_PROC) if prop == "C08" else c18_stream(rng, CALLS_PER_PROC)
        rq = os.path.join(tmp, "fn%d.jsonl" % i)
        with open(rq, "w") as f:
            for j in range(0, len(stream), 200):
                f.write(json.dumps(stream[j:j + 200], separators=(",", ":")) + "\n")
        files.append((rq, len(stream), "fn"))
    for k, lines in enumerate(world_logs(seed, prop, 6, 120)):
        rq = os.path.join(tmp, "world%d.jsonl" % k)
        with open(rq, "w") as f:
            f.write("\n".join(lines) + "\n")
        files.append((rq, len(lines), "world"))
    return files


def _run_leg(acc, prop, seed, name, files, cmd_prefix, binary, env, report_marker, keep_ext):
    procs = []
    for (rq, n, kind) in files:
        log = rq + "." + name + ".log"
        out = open(rq + "." + name + ".out", "w")
        cmd = [c.replace("{log}", log) for c in cmd_prefix] + [binary]
        p = subprocess.Popen(cmd, stdin=open(rq), stdout=out, stderr=open(log + ".stderr", "w"), env=env)
        procs.append((rq, n, kind, p, out, log))
    t0 = time.time()
    for (rq, n, kind, p, out, log) in procs:
        try:
            rc = p.wait(timeout=max(1, WATCHDOG_S - (time.time() - t0)))
        except subprocess.TimeoutExpired:
            p.kill()
            acc.count("%s_skipped_watchdog" % name)
            continue
        out.close()
        native = subprocess.run([SRV_BIN], stdin=open(rq), stdout=subprocess.PIPE, stderr=subprocess.DEVNULL).stdout
        text = ""
        for f in (log, log + ".stderr"):
            if os.path.exists(f):
                text += open(f, errors="replace").read()
        acc.count("%s_requests_%s" % (name, kind), n)
        acc.count("%s_processes" % name)
        reported = (report_marker in text) or rc in (97, 98)
        if reported:
            keep = os.path.join(VERIF, "replays", "%s-%s-%d-%s" % (prop, name, seed, os.path.basename(rq)))
            os.makedirs(os.path.dirname(keep), exist_ok=True)
            shutil.copy(rq, keep)
            with open(keep + keep_ext, "w") as f:
                f.write(text)
            acc.violation("%s reported errors while executing the %s %s stream (requests %s, report %s)"
                          % (name, prop, kind, keep, keep + keep_ext), {"kind": name, "report_head": text[:1500]})
        elif rc != 0:
            acc.count("%s_skipped_rc_%d" % (name, rc))
        elif open(out.name, "rb").read() != native:
            acc.violation("output under %s differs from the native run on a %s stream" % (name, kind), {"kind": name, "stream": rq})
        else:
            acc.count("%s_clean_processes" % name)


def memcheck_leg(acc, prop, seed):
    """both sanitizer legs (name kept for the callers)"""
    scratch = os.path.join(VERIF, "scratch")
    os.makedirs(scratch, exist_ok=True)
    tmp = tempfile.mkdtemp(prefix="sanitize-%s-" % prop, dir=scratch)
    try:
        files = _write_streams(tmp, prop, seed)
        vg = shutil.which("valgrind")
        if vg:
            _run_leg(acc, prop, seed, "memcheck", files, [vg, "--error-exitcode=97", "--quiet", "--log-file={log}"], SRV_BIN,
                     dict(os.environ), "== ", ".memcheck.log")
            acc.cls("sanitizer", prop, "memcheck_ran")
        else:
            acc.count("memcheck_skipped_no_valgrind")
        if build_asan():
            env = dict(os.environ, ASAN_OPTIONS="detect_leaks=1:halt_on_error=1:exitcode=98:abort_on_error=0")
            _run_leg(acc, prop, seed, "asan", files, [], ASAN_BIN, env, "AddressSanitizer", ".asan.log")
            acc.cls("sanitizer", prop, "asan_ran")
        else:
            acc.count("asan_skipped_build_failed")
    finally:
        shutil.rmtree(tmp, ignore_errors=True)
