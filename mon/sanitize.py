"""Sanitizer legs (thorough tier of C08 and C18): the same kind of op stream, replayed through halosrv under
valgrind memcheck. The only `unsafe` reachable from the repository is in the dependency bigint-4.4.3
(mem::uninitialized + ptr::write in U256 add/sub/mul, from_utf8_unchecked in Display); memcheck's definedness
tracking checks that every limb is written before it is read on the executed paths, plus invalid reads/writes.

A memcheck error is a VIOLATION (silently-wrong arithmetic / text is what C08 / C18 exclude); a differing result
between the native and the instrumented run likewise. A leg that cannot run (tool missing, watchdog) is recorded
as skipped in the evidence and never becomes a verdict."""
import json
import os
import shutil
import subprocess
import tempfile
import time

from . import gen
from .core import SRV_BIN, VERIF, sub_rng, to_limbs, D, M256

N_PROCS = 16
CALLS_PER_PROC = 30000
WATCHDOG_S = 900


def c08_stream(rng, n):
    from .props import c08
    ops = list(c08.OPS) + list(c08.SCALAR)
    out = []
    for i in range(n):
        op = ops[i % len(ops)]
        args, _ = c08.gen_case(rng, op)
        out.append({"op": "call", "f": op, "a": c08.encode_args(op, args)})
    return out


def c18_stream(rng, n):
    from .props import c18
    out = []
    vals = c18.dec_values(rng, n // 4)
    for v in vals:
        out.append({"op": "call", "f": "d_to_string", "a": [to_limbs(v)]})
        out.append({"op": "call", "f": "u_to_string", "a": [to_limbs(v)]})
        out.append({"op": "call", "f": "d_json_ser", "a": [to_limbs(v)]})
    for s in c18.random_strings(rng, n // 4):
        out.append({"op": "call", "f": "d_from_str", "a": [s]})
    return out


def memcheck_leg(acc, prop, seed):
    vg = shutil.which("valgrind")
    if not vg:
        acc.count("memcheck_leg_skipped_no_valgrind")
        return
    scratch = os.path.join(VERIF, "scratch")
    os.makedirs(scratch, exist_ok=True)
    tmp = tempfile.mkdtemp(prefix="memcheck-%s-" % prop, dir=scratch)
    try:
        procs = []
        for i in range(N_PROCS):
            rng = sub_rng(seed, prop, "memcheck", i)
            stream = c08_stream(rng, CALLS_PER_PROC) if prop == "C08" else c18_stream(rng, CALLS_PER_PROC)
            rq = os.path.join(tmp, "req%d.jsonl" % i)
            with open(rq, "w") as f:
                for j in range(0, len(stream), 200):
                    f.write(json.dumps(stream[j:j + 200], separators=(",", ":")) + "\n")
            native = subprocess.run([SRV_BIN], stdin=open(rq), stdout=subprocess.PIPE, stderr=subprocess.DEVNULL)
            log = os.path.join(tmp, "vg%d.log" % i)
            out = open(os.path.join(tmp, "out%d.jsonl" % i), "w")
            p = subprocess.Popen([vg, "--error-exitcode=97", "--quiet", "--log-file=" + log, SRV_BIN],
                                 stdin=open(rq), stdout=out, stderr=subprocess.DEVNULL)
            procs.append((i, p, native.stdout, log, out, len(stream)))
        t0 = time.time()
        for i, p, native_out, log, out, n in procs:
            try:
                rc = p.wait(timeout=max(1, WATCHDOG_S - (time.time() - t0)))
            except subprocess.TimeoutExpired:
                p.kill()
                acc.count("memcheck_leg_skipped_watchdog")
                continue
            out.close()
            acc.count("memcheck_calls", n)
            acc.count("memcheck_processes")
            vg_out = open(out.name, "rb").read()
            if rc == 97 or (os.path.exists(log) and os.path.getsize(log) > 0 and rc != 0):
                keep = os.path.join(VERIF, "replays", "%s-memcheck-%d-%d.log" % (prop, seed, i))
                os.makedirs(os.path.dirname(keep), exist_ok=True)
                shutil.copy(log, keep)
                shutil.copy(os.path.join(tmp, "req%d.jsonl" % i), keep + ".requests.jsonl")
                acc.violation("valgrind memcheck reported errors while executing the %s op stream (log %s)" % (prop, keep),
                              {"kind": "memcheck", "log": keep, "head": open(log).read()[:1500]})
            elif rc != 0:
                acc.count("memcheck_leg_skipped_rc_%d" % rc)
            elif vg_out != native_out:
                acc.violation("results under memcheck differ from the native run (nondeterminism / uninitialised data)",
                              {"kind": "memcheck", "process": i})
            else:
                acc.count("memcheck_clean_processes")
        acc.cls("memcheck", prop, "ran")
    finally:
        shutil.rmtree(tmp, ignore_errors=True)
