def memcheck_leg(acc, prop, seed):
    pass
