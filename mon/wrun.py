"""Runs world histories under monitors."""
from .core import Server, sub_rng, HarnessFault
from .hist import HistGen
from .world import World, Pair


def jsafe(o):
    if isinstance(o, Pair):
        return {"pair": o.addr, "assets": [a[1] for a in o.assets], "rate": str(o.rate)}
    if isinstance(o, dict):
        return dict((str(k), jsafe(v)) for k, v in o.items())
    if isinstance(o, (list, tuple)):
        return [jsafe(x) for x in o]
    if isinstance(o, int) and not isinstance(o, bool) and abs(o) > (1 << 53):
        return str(o)
    return o


def op_brief(op):
    return jsafe({"kind": op["kind"], "actor": op["actor"], "contract": op["contract"], "msg": op.get("msg"),
                  "funds": op.get("funds"), "sem": dict((k, v) for k, v in op.get("sem", {}).items())})


def run_world(acc, srv, key, monitor_factory, weights, nsteps, world_kw=None, hist_kw=None, pre_hook=None):
    rng = sub_rng(*key)
    world = World(srv, rng, **(world_kw or {}))
    world.key = key
    gen = HistGen(world, rng, weights, **(hist_kw or {}))
    mons = monitor_factory(world, acc)
    if pre_hook:
        pre_hook(world, gen, mons)
    # initial liquidity, as ordinary monitored operations
    for p in gen.seed_liquidity():
        save = world.pairs
        world.pairs = [p]
        try:
            op, quotes = gen.g_provide(first=True)
        finally:
            world.pairs = save
        st = world.step(op, quotes)
        for m in mons:
            m.on_step(st)
    for _ in range(nsteps):
        op, quotes = gen.next()
        st = world.step(op, quotes)
        for m in mons:
            m.on_step(st)
    for m in mons:
        if hasattr(m, "on_end"):
            m.on_end()
    return world


def run_worlds(acc, prop, tier, seed, shard, nshards, monitor_factory, weights, n_worlds, steps,
               world_kw=None, hist_kw=None, pre_hook=None):
    srv = Server()
    try:
        for wi in range(n_worlds):
            key = (seed, prop, tier, shard, wi)
            rng = sub_rng("len", *key)
            n = rng.randrange(steps[0], steps[1] + 1)
            run_world(acc, srv, key, monitor_factory, weights, n, world_kw, hist_kw, pre_hook)
            acc.count("worlds")
    finally:
        srv.close()
