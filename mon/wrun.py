"""Runs world histories under monitors."""
from .core import Server, sub_rng, HarnessFault
from .hist import HistGen
from .world import World, Pair


def jsafe(o):
    if isinstance(o, Pair):
        return {"pair": o.addr, "assets": [a[1] for a in o.assets], "rate": str(o.rate)}
    if isinstance(o, dict):
        return dict((str(k), jsafe(v)) for k, v in o.items())
    if isinstance(o, (list, tuple)):
        return [jsafe(x) for x in o]
    if isinstance(o, int) and not isinstance(o, bool) and abs(o) > (1 << 53):
        return str(o)
    return o


def op_brief(op):
    return jsafe({"kind": op["kind"], "actor": op["actor"], "contract": op["contract"], "msg": op.get("msg"),
                  "funds": op.get("funds"), "sem": dict((k, v) for k, v in op.get("sem", {}).items())})


def run_world(acc, srv, key, monitor_factory, weights, nsteps, world_kw=None, hist_kw=None, pre_hook=None, post_hook=None):
    rng = sub_rng(*key)
    world = World(srv, rng, **(world_kw or {}))
    world.key = key
    gen = HistGen(world, rng, weights, **(hist_kw or {}))
    mons = monitor_factory(world, acc)
    if pre_hook:
        pre_hook(world, gen, mons)
    # initial liquidity, as ordinary monitored operations
    for p in gen.seed_liquidity():
        save = world.pairs
        world.pairs = [p]
        try:
            op, quotes = gen.g_provide(first=True)
        finally:
            world.pairs = save
        st = world.step(op, quotes)
        for m in mons:
            m.on_step(st)
    recent = []
    for _ in range(nsteps):
        op, quotes = gen.next()
        st = world.step(op, quotes)
        for m in mons:
            m.on_step(st)
        recent.append(st)
        if len(recent) > 80:
            recent.pop(0)
    if post_hook:
        # exhaustive walks in the state the history ended in (finite spaces enumerated, not sampled)
        for op, quotes in post_hook(world, gen):
            st = world.step(op, quotes)
            for m in mons:
                m.on_step(st)
    for m in mons:
        if hasattr(m, "on_end"):
            m.on_end()
    world.recent = recent
    return world


def canary_run(acc, world, monitor_factory, corruptions):
    """Feed real recorded steps with one field corrupted to a fresh monitor; it must flag each one.
    corruptions: {name: fn(world, step) -> corrupted Step or None}"""
    from .core import Acc
    from .world import Step
    for name, fn in corruptions.items():
        if acc.counters.get("canary_fired_" + name, 0) >= 3:
            continue
        for st in reversed(world.recent):
            c = fn(world, Step(st.op, st.pre.clone(), st.post.clone(), dict(st.res), st.quotes, st.idx))
            if c is None:
                continue
            scratch = Acc()
            base = Acc()
            for m in monitor_factory(world, base):
                m.on_step(st)
            if base.violations or base.known:
                continue  # only corrupt events the monitor accepted as clean
            for m in monitor_factory(world, scratch):
                m.on_step(c)
            acc.count("canary_tried_" + name)
            if scratch.violations or scratch.known:
                acc.count("canary_fired_" + name)
            break


def canary_floor(acc, names):
    msgs = []
    for n in names:
        t, f = acc.counters.get("canary_tried_" + n, 0), acc.counters.get("canary_fired_" + n, 0)
        # the canary is a liveness check of the oracle: a corrupted real event must be flagged. A corruption is
        # occasionally not a violation of the statement in the step it was applied to (one-unit bands, the actor
        # happens to be the account that was "robbed", ...), so a small share of misses is tolerated.
        if t == 0:
            msgs.append("canary %s never applicable" % n)
        elif f < 3 or f * 10 < t * 8:
            msgs.append("canary %s silent (%d/%d)" % (n, f, t))
    return msgs


def run_worlds(acc, prop, tier, seed, shard, nshards, monitor_factory, weights, n_worlds, steps,
               world_kw=None, hist_kw=None, pre_hook=None, corruptions=None, post_hook=None, post_every=1):
    srv = Server()
    try:
        for wi in range(n_worlds):
            from . import core
            if core.skip_world(wi):
                continue
            key = (seed, prop, tier, shard, wi)
            rng = sub_rng("len", *key)
            n = rng.randrange(steps[0], steps[1] + 1)
            world = run_world(acc, srv, key, monitor_factory, weights, n, world_kw, hist_kw, pre_hook,
                              post_hook if (post_hook and wi % post_every == 0) else None)
            if post_hook and wi % post_every == 0:
                acc.count("worlds_with_exhaustive_walk")
            acc.count("worlds")
            if corruptions:
                canary_run(acc, world, monitor_factory, corruptions)
    finally:
        srv.close()
