"""Liquidity worlds: a cw-multi-test chain with the real factory / pair / router contracts,
cw20-base tokens and a bank, driven over halosrv. Builds worlds, builds messages exactly as a
user would send them (raw JSON), executes steps and returns (pre ledger, post ledger, result)."""
import base64
import json

from .core import D, HarnessFault, M128

ACTORS = ["owner", "lp1", "lp2", "trader1", "trader2", "attacker", "recv", "by1", "by2"]
ACTIVE = ["owner", "lp1", "lp2", "trader1", "trader2", "attacker"]
BYSTANDERS = ["by1", "by2"]
BAL = 1 << 120          # initial holding of every asset for every actor except `recv`
ALLOW = (1 << 127) - 1   # open allowance toward pairs / router


def ainfo(asset):
    if asset[0] == "n":
        return {"native_token": {"denom": asset[1]}}
    return {"token": {"contract_addr": asset[1]}}


def aname(asset):
    return asset[1]


def b64(obj):
    return base64.b64encode(json.dumps(obj, separators=(",", ":")).encode()).decode()


def b64_styled(obj, rng):
    """the same JSON value, now and then written the way other clients write it (blanks after ':' and ',', indented, with a
    trailing newline): hook payloads are parsed, not compared"""
    r = rng.random()
    if r < 0.8:
        return b64(obj)
    if r < 0.87:
        text = json.dumps(obj)                      # ", " and ": "
    elif r < 0.93:
        text = json.dumps(obj, indent=2)
    elif r < 0.97:
        text = json.dumps(obj, separators=(",", ":")) + "\n"
    else:
        text = " " + json.dumps(obj, separators=(" , ", " : ")) + " "
    return base64.b64encode(text.encode()).decode()


def dec_str(atomics):
    """cosmwasm Decimal / Decimal256 text for an atomics integer (18 fractional digits)."""
    w, f = divmod(atomics, D)
    if f == 0:
        return str(w)
    return "%d.%s" % (w, ("%018d" % f).rstrip("0"))


def attr_events(res, ty="wasm"):
    """List of attribute dicts of events of type `ty` in an ok result."""
    out = []
    if res.get("r") != "ok":
        return out
    for e in res["v"]["events"]:
        if e["ty"] == ty:
            out.append(dict((k, v) for k, v in e["a"]))
    return out


def err_text(res):
    e = res.get("e", "")
    return e.split("\x1f")[0] if res.get("r") == "err" else e


class Ledger:
    __slots__ = ("bal", "supply", "allow", "dig")

    def __init__(self, world, snap):
        bal = {}
        accts, denoms, toks = world.t_accounts, world.t_denoms, world.t_tokens
        prev = getattr(world, "ledger", None)
        frozen = getattr(world, "frozen", ())
        try:
            keys = [world.denom_key(d) for d in denoms]
            for a, row in zip(accts, snap["bank"]):
                for d, v in zip(keys, row):
                    bal[(a, d)] = int(v)
            for t, row in zip(toks, snap["cw20"]):
                if t in frozen and prev is not None:
                    # a frozen token answers no query; it cannot move either, so its cells are what they were
                    for a in accts:
                        bal[(a, t)] = prev.bal.get((a, t), 0)
                    continue
                for a, v in zip(accts, row):
                    bal[(a, t)] = int(v)
            self.supply = dict((t, (prev.supply[t] if (t in frozen and prev is not None) else int(v))) for t, v in zip(toks, snap["supply"]))
            self.allow = [(prev.allow[i] if (prev is not None and world.by_allow[i][0] in frozen) else int(v))
                          for i, v in enumerate(snap["allow"])]
        except ValueError:
            raise HarnessFault("snapshot query failed: %r" % (snap,))
        self.bal = bal
        self.dig = dict(zip(world.t_contracts, snap["dig"]))

    def get(self, acct, asset_id):
        return self.bal.get((acct, asset_id), 0)

    def clone(self):
        o = Ledger.__new__(Ledger)
        o.bal, o.supply, o.allow, o.dig = dict(self.bal), dict(self.supply), list(self.allow), dict(self.dig)
        return o

    def diff(self, other):
        """cells whose balance differs: {(acct, asset): (self, other)}"""
        out = {}
        ob = other.bal
        for k, v in self.bal.items():
            w = ob.get(k, 0)
            if v != w:
                out[k] = (v, w)
        return out

    def same_as(self, other):
        return (self.bal == other.bal and self.supply == other.supply and self.allow == other.allow
                and self.dig == other.dig)


class Pair:
    def __init__(self, addr, lp, assets, decimals, rate, whitelist, mins):
        self.addr, self.lp, self.assets, self.decimals = addr, lp, assets, list(decimals)
        self.rate, self.whitelist, self.mins = rate, whitelist, mins

    def kind(self):
        return self.assets[0][0] + self.assets[1][0]

    def other(self, asset):
        return self.assets[1] if asset == self.assets[0] else self.assets[0]

    def idx(self, asset):
        return 0 if asset == self.assets[0] else 1

    def reserves(self, led):
        return (led.get(self.addr, self.assets[0][1]), led.get(self.addr, self.assets[1][1]))

    def supply(self, led):
        return led.supply[self.lp]


class Step:
    __slots__ = ("op", "pre", "post", "res", "quotes", "idx")

    def __init__(self, op, pre, post, res, quotes, idx):
        self.op, self.pre, self.post, self.res, self.quotes, self.idx = op, pre, post, res, quotes, idx

    @property
    def ok(self):
        return self.res["r"] == "ok"


class World:
    def __init__(self, srv, rng, n_native=None, n_cw20=None, scale_bits=None, rates=None,
                 pair_plan=None, whitelist_mode=None, whale=False):
        self.srv, self.rng = srv, rng
        self.nstep = 0
        rng_ = rng
        self.scale_bits = scale_bits if scale_bits is not None else rng_.choice([10, 20, 30, 40, 50, 64, 66, 80, 96])
        n_native = n_native or rng_.choice([2, 3, 3, 4])
        n_cw20 = n_cw20 or rng_.choice([3, 4])
        denom_pool = ["uaura", "uusd", "ibc/27394FB092D2ECCD56123C74F36E4C1F926001CEADA9CA97EA622B25F41E5EB2", "utaura"]
        rng_.shuffle(denom_pool)
        if rng_.random() < 0.35:
            # two long token-factory denoms that share head and tail (same sub-denom, different creators)
            denom_pool = ["factory/aura1fqj2redmssckrdeekhkcvd2kzp9f4nks4fctrt/uhalo",
                          "factory/aura1uh24g2lc8hvvkaaf7awz25lrh5fptthu2dhq0n/uhalo"] + denom_pool
        self.glued = False
        self.frozen = set()
        if rng_.random() < 0.15:
            # three denoms whose names glue together ambiguously: "uaura"+"uaurau" == "uaurau"+"aurau"
            denom_pool = ["uaura", "uaurau", "aurau"] + [d for d in denom_pool if d != "uaura"]
            n_native = max(n_native, 3)
            self.glued = True
        self.natives = [("n", d) for d in denom_pool[:n_native]]
        self.decimals = {}
        srv.reset_log()
        bals = []
        # look-alike denoms (same letters, other case): legal, different coins that are never registered anywhere
        self.lookalikes = dict((d, d.upper()) for _, d in self.natives if d.upper() != d)
        for a in ACTORS:
            if a == "recv":
                continue
            for _, d in self.natives:
                bals.append([a, d, str(BAL)])
            if a in ("attacker", "trader1", "trader2", "lp1"):
                for d in self.lookalikes.values():
                    bals.append([a, d, str(BAL)])
        # worthless coins whose denom is spelled exactly like a (future) contract address: kind-confusion probes
        self.addr_denoms = ["contract%d" % i for i in range(2, 8)]
        for d in self.addr_denoms:
            for a in ("attacker", "owner", "lp1", "trader1"):
                bals.append([a, d, str(BAL)])
        # junk coins held by the attacker only (not tracked in the ledger: they can only ever be given away):
        #  - 34 denoms that sort before every traded denom, to pad `funds` beyond 30 entries
        #  - a digit-leading coin per native denom whose printed form "<amount><denom>" reads like a larger amount of that denom
        self.junk_denoms = ["a%02d" % i for i in range(34)]
        self.digit_denoms = dict((d, "000" + d) for _, d in self.natives)
        for d in self.junk_denoms + sorted(self.digit_denoms.values()):
            bals.append(["attacker", d, str(BAL)])
        # a worthless coin that sorts after every traded denom (tracked; only ever donated)
        self.tail_denom = "zzzcoin"
        bals.append(["attacker", self.tail_denom, str(BAL)])
        self.whale = whale
        if whale:
            # an account holding the largest representable amount of every native coin (used to fill a recipient up to
            # just below 2^128 before a route pays it)
            for _, d in self.natives:
                bals.append(["whale", d, str(M128)])
        r = srv.send({"op": "new", "balances": bals})
        self.codes = r["v"]
        self.factory = self._inst("factory", "owner", {"pair_code_id": self.codes["pair"], "token_code_id": self.codes["cw20"]}, admin="owner")
        self.router = self._inst("router", "owner", {"halo_factory": self.factory}, admin="owner")
        self.tokens = []
        # in some worlds one traded token is not cw20-base but another implementation of the cw20 standard (own storage layout)
        self.ltoken_at = rng_.randrange(n_cw20) if rng_.random() < 0.3 else -1
        for i in range(n_cw20):
            dec = rng_.choice([0, 6, 6, 8, 18])
            t = self._inst("ltoken" if i == self.ltoken_at else "cw20", "owner", {
                "name": "token%d" % i, "symbol": "TK" + "ABCDEFG"[i], "decimals": dec,
                "initial_balances": [{"address": a, "amount": str(BAL)} for a in ACTORS if a != "recv"],
                "mint": None}, admin="owner")
            self.tokens.append(("t", t))
            self.decimals[t] = dec
        self.rogue = self._inst("cw20", "attacker", {
            "name": "roguetoken", "symbol": "ROGUE", "decimals": 6,
            "initial_balances": [{"address": a, "amount": str(BAL)} for a in ("attacker", "trader1", "by1")],
            "mint": None})
        self.decimals[self.rogue] = 6
        reg_lookalikes = rng_.random() < 0.5
        for _, d in self.natives:
            dec = rng_.choice([0, 6, 6, 8, 18])
            self.decimals[d] = dec
            self.must(self.x_bank("owner", self.factory, [[d, "1"]]))
            todo = [(d, dec)]
            if d in self.lookalikes:
                # the look-alike coin is a different coin: it may be registered too, with decimals of its own, before or
                # after the real one; nothing about the real denom may change because of it
                u = self.lookalikes[d]
                self.must(self.x_bank("attacker", self.factory, [[u, "1"]]))
                if reg_lookalikes:
                    du = rng_.choice([x for x in (0, 6, 8, 9, 18) if x != dec])
                    self.decimals[u] = du
                    todo.insert(rng_.choice([0, 1, 1]), (u, du))
            for dn, dc in todo:
                self.must(self.x("owner", self.factory, {"add_native_token_decimals": {"denom": dn, "decimals": dc}}))
        # a bank denom spelled exactly like a traded cw20's address may be registered too (another asset altogether):
        # nothing about the token or its pairs may ever follow that denom's decimals
        self.addr_dec = {}
        for t in self.tokens:
            if t[1] in self.addr_denoms and rng_.random() < 0.5:
                du = rng_.choice([x for x in (0, 3, 9, 12, 18) if x != self.decimals[t[1]]])
                self.must(self.x_bank("owner", self.factory, [[t[1], "1"]]))
                self.must(self.x("owner", self.factory, {"add_native_token_decimals": {"denom": t[1], "decimals": du}}))
                self.addr_dec[t[1]] = du
        # pairs
        self.pairs = []
        plan = pair_plan or self._default_plan(rng_)
        rates = rates or [0, 1, 3 * 10 ** 15, 3 * 10 ** 15, 3 * 10 ** 16, 5 * 10 ** 17, D, None, rng_.randrange(0, D + 1), 10 ** 15]
        for (a0, a1) in plan:
            rate = rng_.choice(rates)
            wm = whitelist_mode or rng_.choice(["two", "two", "two", "one", "one", "two", "one", "empty"])
            wl = {"two": ["lp1", "lp2"], "one": ["lp1"], "empty": []}[wm]
            big = 1 << self.scale_bits
            mins = [rng_.choice([0, 0, 1, 1000, big, big >> 2]), rng_.choice([0, 0, 1, 1000, big, big >> 3])]
            # the LP token's own precision is free (absent = 6); nothing a pair does may depend on it
            self.create_pair(a0, a1, rate, wl, mins, lp_dec=rng_.choice([None, None, None, 0, 3, 6, 8, 12, 18]))
        # allowances
        for p in self.pairs:
            for a in p.assets:
                if a[0] == "t":
                    for who in ACTORS:
                        if who != "recv":
                            self.must(self.x(who, a[1], {"increase_allowance": {"spender": p.addr, "amount": str(ALLOW)}}))
        self.by_allow = []
        for who in BYSTANDERS:
            for t in self.tokens:
                self.must(self.x(who, t[1], {"increase_allowance": {"spender": self.router, "amount": str(ALLOW)}}))
                self.by_allow.append((t[1], who, self.router))
                for p in self.pairs:
                    if t in p.assets:
                        self.by_allow.append((t[1], who, p.addr))
        # account names with blanks around them are accounts of their own in the simulator (its codec accepts them)
        self.extra_accounts = [" recv", "recv "] + (["whale_recv"] if whale else [])
        self.retrack()

    # -- construction helpers ------------------------------------------------
    def _default_plan(self, rng):
        N, T = self.natives, self.tokens
        plan = [(N[0], N[1]), (N[0], T[0]), (T[1], N[1]), (T[0], T[1])]
        extra = [(N[0], T[1]), (N[1], T[0])]     # close triangles (routes that revisit an asset need one)
        if len(T) > 2:
            extra += [(T[1], T[2]), (N[1], T[2]), (T[2], N[0])]
        if len(N) > 2:
            extra += [(N[2], N[0]), (T[0], N[2]), (N[1], N[2])]
        if len(T) > 3:
            extra += [(T[3], T[2]), (N[0], T[3])]
        rng.shuffle(extra)
        if self.glued:
            plan.append((N[1], N[2]))      # uaura -> uaurau -> aurau is a route
        seen = set(frozenset(p) for p in plan)
        for e in extra[:rng.choice([0, 1, 2, 2, 3, 3])]:
            if frozenset(e) not in seen:
                plan.append(e)
                seen.add(frozenset(e))
        return plan

    def _inst(self, code, sender, msg, admin=None):
        r = self.srv.send({"op": "inst", "code": code, "sender": sender, "msg": json.dumps(msg),
                           "label": code, "admin": admin})
        if r["r"] != "ok":
            raise HarnessFault("instantiate %s failed: %r" % (code, r))
        for e in r["v"]["events"]:
            if e["ty"] == "instantiate":
                return dict(e["a"])["_contract_addr"]
        raise HarnessFault("no instantiate event: %r" % (r,))

    def must(self, r):
        if r["r"] != "ok":
            raise HarnessFault("setup step failed: %r" % (r,))
        return r

    def create_pair(self, a0, a1, rate, whitelist, mins, sender="owner", must=True, lp_dec=None):
        msg = {"create_pair": {
            "asset_infos": [ainfo(a0), ainfo(a1)],
            "requirements": {"whitelist": whitelist, "first_asset_minimum": str(mins[0]),
                             "second_asset_minimum": str(mins[1])},
            "commission_rate": None if rate is None else dec_str(rate),
            "lp_token_info": {"lp_token_name": "lptoken", "lp_token_symbol": "LPT", "lp_token_decimals": lp_dec}}}
        r = self.x(sender, self.factory, msg)
        if r["r"] != "ok":
            if must:
                raise HarnessFault("create_pair failed: %r" % (r,))
            return r, None
        ev = [dict(e["a"]) for e in r["v"]["events"] if e["ty"] == "wasm"]
        addr = lp = None
        for e in ev:
            if "pair_contract_addr" in e:
                addr, lp = e["pair_contract_addr"], e["liquidity_token_addr"]
        p = Pair(addr, lp, (a0, a1), [self.decimals[a0[1]], self.decimals[a1[1]]],
                 3 * 10 ** 15 if rate is None else rate, list(whitelist), list(mins))
        self.pairs.append(p)
        return r, p

    def retrack(self):
        contracts = [self.factory, self.router] + [p.addr for p in self.pairs]
        tok_contracts = [t[1] for t in self.tokens] + [p.lp for p in self.pairs] + [self.rogue]
        self.t_accounts = ACTORS + contracts + tok_contracts + self.extra_accounts
        self.t_denoms = [d for _, d in self.natives] + sorted(self.lookalikes.values()) + self.addr_denoms + [self.tail_denom]
        self.t_tokens = tok_contracts
        self.t_contracts = contracts + tok_contracts
        self.srv.send({"op": "track", "accounts": self.t_accounts, "denoms": self.t_denoms,
                       "tokens": self.t_tokens, "contracts": self.t_contracts,
                       "allowances": [list(x) for x in self.by_allow]})
        self.ledger = Ledger(self, self.srv.send({"op": "snap"})["v"])

    def denom_key(self, d):
        """ledger key of a bank denom; denoms spelled like contract addresses get a prefix so that they cannot be
        confused with the cw20 token of the same name in the ledger"""
        return "bank:" + d if d in self.addr_denoms else d

    # -- raw execution ---------------------------------------------------------
    def x(self, sender, contract, msg, funds=None, snap=False):
        return self.srv.send({"op": "exec", "sender": sender, "contract": contract,
                              "msg": msg if isinstance(msg, str) else json.dumps(msg, separators=(",", ":")),
                              "funds": funds or [], "snap": snap})

    def x_bank(self, frm, to, funds, snap=False):
        return self.srv.send({"op": "bank", "from": frm, "to": to, "funds": funds, "snap": snap})

    def q(self, contract, msg):
        return self.srv.send({"op": "query", "contract": contract, "msg": json.dumps(msg, separators=(",", ":"))})

    def step(self, op, quotes=None):
        """Execute one operation; returns Step with ledgers before/after."""
        reqs = []
        for (c, m) in (quotes or []):
            reqs.append({"op": "query", "contract": c, "msg": json.dumps(m, separators=(",", ":"))})
        if op.get("bank"):
            reqs.append({"op": "bank", "from": op["actor"], "to": op["contract"], "funds": op["funds"], "snap": True})
        elif op.get("wasm_migrate"):
            # the contract's wasm admin migrates it to the code registered under this name
            if op.get("freeze") is True:
                self.frozen.add(op["contract"])       # (the snapshot after the step can no longer query it)
            reqs.append({"op": "migrate", "sender": op["actor"], "contract": op["contract"], "code": op["wasm_migrate"],
                         "msg": op.get("migrate_msg", "{}"), "snap": True})
        else:
            m = op["msg"]
            reqs.append({"op": "exec", "sender": op["actor"], "contract": op["contract"],
                         "msg": m if isinstance(m, str) else json.dumps(m, separators=(",", ":")),
                         "funds": op.get("funds") or [], "snap": True})
        resps = self.srv.send(reqs)
        res = resps[-1]
        if op.get("freeze") is True and res["r"] != "ok":
            self.frozen.discard(op["contract"])
        if op.get("freeze") is False and res["r"] == "ok":
            self.frozen.discard(op["contract"])
        pre = self.ledger
        post = Ledger(self, res.pop("snap"))
        self.ledger = post
        self.nstep += 1
        if op["kind"] == "add_decimals" and res["r"] == "ok":
            # the TRUE decimals of a native denom are what the owner registered last (not what a pair says about itself)
            dn, dec = op["sem"]["denom"], op["sem"]["decimals"]
            if dn in self.addr_denoms:
                self.addr_dec[dn] = dec         # (a denom spelled like an address: no pair of this world trades it)
                return Step(op, pre, post, res, resps[:-1], self.nstep)
            self.decimals[dn] = dec
            for p in self.pairs:
                for i in (0, 1):
                    if p.assets[i] == ("n", dn):
                        p.decimals[i] = dec
        return Step(op, pre, post, res, resps[:-1], self.nstep)

    def refresh_decimals(self):
        """re-read every pair's own asset_decimals (they change when a native denom is re-registered)"""
        rs = self.srv.send([{"op": "query", "contract": p.addr, "msg": "{\"pair\":{}}"} for p in self.pairs])
        for p, r in zip(self.pairs, rs):
            if r["r"] != "ok":
                raise HarnessFault("pair query failed: %r" % (r,))
            p.decimals = list(r["v"]["asset_decimals"])

    # -- message builders --------------------------------------------------------
    def asset_id(self, asset):
        return asset[1]

    def op_swap(self, actor, pair, offer, amount, to=None, belief=None, max_spread=None):
        return self.op_swap_raw(actor, pair, "direct" if offer[0] == "n" else "hook", offer, amount,
                                offer, amount, to=to, belief=belief, max_spread=max_spread, well_formed=True)

    def op_swap_raw(self, actor, pair, entry, named, named_amt, delivered, delivered_amt, to=None,
                    belief=None, max_spread=None, extra_funds=None, well_formed=False, funds_override=None):
        inner = {"swap": {"offer_asset": {"info": ainfo(named), "amount": str(named_amt)},
                          "belief_price": None if belief is None else dec_str(belief),
                          "max_spread": None if max_spread is None else dec_str(max_spread),
                          "to": to}}
        sem = {"pair": pair, "entry": entry, "named": named, "named_amt": named_amt, "delivered": delivered,
               "delivered_amt": delivered_amt, "to": to, "belief": belief, "max_spread": max_spread,
               "well_formed": well_formed}
        if entry == "direct":
            if funds_override is not None:
                funds = funds_override
            else:
                funds = []
                if delivered is not None and delivered[0] == "n" and delivered_amt > 0:
                    funds.append([delivered[1], str(delivered_amt)])
                for (d, a) in (extra_funds or []):
                    funds.append([d, str(a)])
            funds = sorted(funds)
            sem["funds"] = [(d, int(a)) for d, a in funds]
            return {"kind": "swap", "actor": actor, "contract": pair.addr, "msg": inner, "funds": funds, "sem": sem}
        # hook: delivered must be a cw20 contract
        sem["funds"] = []
        msg = {"send": {"contract": pair.addr, "amount": str(delivered_amt), "msg": b64_styled(inner, self.rng)}}
        return {"kind": "swap", "actor": actor, "contract": delivered[1], "msg": msg, "funds": [], "sem": sem}

    def op_provide(self, actor, pair, amounts, receiver=None, slippage=None, reverse=False, funds_override=None):
        assets = [{"info": ainfo(pair.assets[i]), "amount": str(amounts[i])} for i in (0, 1)]
        if reverse:
            assets.reverse()
        if funds_override is not None:
            funds = funds_override
        else:
            funds = sorted([pair.assets[i][1], str(amounts[i])] for i in (0, 1)
                           if pair.assets[i][0] == "n" and amounts[i] > 0)
        msg = {"provide_liquidity": {"assets": assets,
                                     "slippage_tolerance": None if slippage is None else dec_str(slippage),
                                     "receiver": receiver}}
        return {"kind": "provide", "actor": actor, "contract": pair.addr, "msg": msg, "funds": funds,
                "sem": {"pair": pair, "amounts": list(amounts), "receiver": receiver, "slippage": slippage,
                        "funds": [(d, int(a)) for d, a in funds], "well_formed": funds_override is None}}

    def op_withdraw(self, actor, pair, amount):
        msg = {"send": {"contract": pair.addr, "amount": str(amount), "msg": b64_styled({"withdraw_liquidity": {}}, self.rng)}}
        return {"kind": "withdraw", "actor": actor, "contract": pair.lp, "msg": msg, "funds": [],
                "sem": {"pair": pair, "amount": amount}}

    def op_withdraw_via(self, actor, pair, token, amount):
        """the withdraw hook delivered to the pair by a cw20 that is NOT its LP token"""
        msg = {"send": {"contract": pair.addr, "amount": str(amount), "msg": b64({"withdraw_liquidity": {}})}}
        return {"kind": "withdraw_via_token", "actor": actor, "contract": token[1], "msg": msg, "funds": [],
                "sem": {"pair": pair, "amount": amount, "token": token}}

    def route_ops_json(self, hops):
        return [{"halo_swap": {"offer_asset_info": ainfo(o), "ask_asset_info": ainfo(a)}} for o, a in hops]

    def op_route(self, actor, hops, amount, minimum_receive=None, to=None, entry_asset=None, extra_funds=None):
        """hops: list of (offer_asset, ask_asset). Entry asset defaults to the first hop's offer."""
        entry_asset = entry_asset or hops[0][0]
        inner = {"execute_swap_operations": {"operations": self.route_ops_json(hops),
                                             "minimum_receive": None if minimum_receive is None else str(minimum_receive),
                                             "to": to}}
        sem = {"hops": list(hops), "amount": amount, "min": minimum_receive, "to": to, "entry_asset": entry_asset}
        if entry_asset[0] == "n":
            funds = [[entry_asset[1], str(amount)]] if amount > 0 else []
            for d, a in (extra_funds or []):
                if d != entry_asset[1] and a > 0:
                    funds.append([d, str(a)])
            funds = sorted(funds)
            sem["funds"] = [(d, int(a)) for d, a in funds]
            return {"kind": "route", "actor": actor, "contract": self.router, "msg": inner, "funds": funds, "sem": sem}
        sem["funds"] = []
        msg = {"send": {"contract": self.router, "amount": str(amount), "msg": b64_styled(inner, self.rng)}}
        return {"kind": "route", "actor": actor, "contract": entry_asset[1], "msg": msg, "funds": [], "sem": sem}

    def op_donate(self, actor, target, asset, amount):
        if asset[0] == "n":
            return {"kind": "donate", "actor": actor, "contract": target, "bank": True,
                    "funds": [[asset[1], str(amount)]], "msg": None,
                    "sem": {"target": target, "asset": asset, "amount": amount}}
        return {"kind": "donate", "actor": actor, "contract": asset[1],
                "msg": {"transfer": {"recipient": target, "amount": str(amount)}}, "funds": [],
                "sem": {"target": target, "asset": asset, "amount": amount}}

    def op_lp_burn(self, actor, pair, amount):
        return {"kind": "lp_burn", "actor": actor, "contract": pair.lp, "msg": {"burn": {"amount": str(amount)}},
                "funds": [], "sem": {"pair": pair, "amount": amount}}

    def op_lp_transfer(self, actor, pair, to, amount):
        return {"kind": "lp_transfer", "actor": actor, "contract": pair.lp,
                "msg": {"transfer": {"recipient": to, "amount": str(amount)}}, "funds": [],
                "sem": {"pair": pair, "amount": amount, "to": to}}

    # -- queries -------------------------------------------------------------------
    def q_sim(self, pair, offer, amount):
        return (pair.addr, {"simulation": {"offer_asset": {"info": ainfo(offer), "amount": str(amount)}}})

    def q_rsim(self, pair, ask, amount):
        return (pair.addr, {"reverse_simulation": {"ask_asset": {"info": ainfo(ask), "amount": str(amount)}}})

    def q_route_sim(self, hops, amount):
        return (self.router, {"simulate_swap_operations": {"offer_amount": str(amount),
                                                           "operations": self.route_ops_json(hops)}})

    def q_route_rsim(self, hops, amount):
        return (self.router, {"reverse_simulate_swap_operations": {"ask_amount": str(amount),
                                                                   "operations": self.route_ops_json(hops)}})

    def pair_for(self, a, b):
        for p in self.pairs:
            if set(p.assets) == {a, b}:
                return p
        return None

    def all_assets(self):
        return self.natives + self.tokens
