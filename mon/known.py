"""Signatures of the findings listed in /verif/known_findings.json (matched by id).

A violation is reported as KNOWN-FINDING only if it matches the exact signature of an
entry whose status is "open"; anything else is a VIOLATION."""
from .core import D


def c01_window(x, y, a, c, gross=None, comm=None):
    """finding C01-window: compute_swap pays ceil(g) instead of floor(g) when
    0 < frac(x*y/(x+a)) < 10^-18.  x,y reserves before, a offer, c commission atomics."""
    s = x + a
    if s <= 0 or a <= 0:
        return False
    rem = (x * y) % s
    if not (0 < rem * D < s):
        return False
    # the finding exists only where the unchanged compute_swap returns at all: its spread subtraction
    # floor(y*a/x) - ceil(g) aborts when negative (x = 0 aborts in the division before it)
    if x == 0 or (y * a) // x < y - (x * y) // s:
        return False
    if gross is not None and gross != y - (x * y) // s:
        return False
    if comm is not None and gross is not None and comm != gross * c // D:
        return False
    return True


def swap_events(world, st):
    """(pair, offer_asset_id, a, ret, spread, comm) for every pair-swap event of a successful step, in order."""
    out = []
    if st.res.get("r") != "ok":
        return out
    by_addr = dict((p.addr, p) for p in world.pairs)
    for e in st.res["v"]["events"]:
        if e["ty"] != "wasm":
            continue
        d = dict((k, v) for k, v in e["a"])
        if d.get("action") == "swap" and d.get("_contract_addr") in by_addr:
            try:
                out.append((by_addr[d["_contract_addr"]], d["offer_asset"], int(d["offer_amount"]),
                            int(d["return_amount"]), int(d["spread_amount"]), int(d["commission_amount"])))
            except (KeyError, ValueError):
                pass
    return out


def step_window_pairs(world, st):
    """Set of pair addresses on which a hop of this step matches the C01-window signature
    (reserves tracked hop by hop from the pre-ledger)."""
    hits = set()
    running = {}
    for (p, offer_id, a, ret, spread, comm) in swap_events(world, st):
        if p.addr not in running:
            running[p.addr] = list(p.reserves(st.pre))
        i = 0 if p.assets[0][1] == offer_id else 1
        x, y = running[p.addr][i], running[p.addr][1 - i]
        if c01_window(x, y, a, p.rate, gross=ret + comm, comm=comm):
            hits.add(p.addr)
        running[p.addr][i] = x + a
        running[p.addr][1 - i] = y - ret
    return hits
