"""Value generators aimed at the places where a one-unit or one-branch change shows."""
from .core import D, U64, U128, U256, M128, M256

LIMB_GRID = [0, 1, (1 << 32) - 1, 1 << 32, 1 << 63, U64 - 1]


def limb_grid_value(rng):
    return sum(rng.choice(LIMB_GRID) << (64 * i) for i in range(4))


def pow10_near(rng, maxbits=256):
    k = rng.randrange(0, 78)
    v = 10 ** k + rng.choice([-1, 0, 0, 1])
    return max(0, min(v, (1 << maxbits) - 1))


def pow2_near(rng, maxbits=256):
    k = rng.randrange(0, maxbits + 1)
    v = (1 << k) + rng.choice([-1, 0, 0, 1])
    return max(0, min(v, (1 << maxbits) - 1))


def rand_bits(rng, maxbits=256):
    b = rng.randrange(0, maxbits + 1)
    return rng.getrandbits(b) if b else 0


def u256(rng):
    """A 256-bit value from a mix of families (tagged)."""
    r = rng.random()
    if r < 0.22:
        return limb_grid_value(rng), "grid"
    if r < 0.38:
        return pow10_near(rng), "p10"
    if r < 0.54:
        return pow2_near(rng), "p2"
    if r < 0.62:
        return rng.choice([0, 1, 2, D - 1, D, D + 1, M128, U128, U128 + 1, M256, M256 - 1,
                           M256 // D, M256 // D + 1, D * D, D * D - 1]), "const"
    if r < 0.72:
        # sparse limbs
        v = 0
        for i in range(4):
            if rng.random() < 0.5:
                v |= rng.getrandbits(64) << (64 * i)
        return v, "sparse"
    return rand_bits(rng), "rand"


def u128(rng):
    r = rng.random()
    if r < 0.2:
        return sum(rng.choice(LIMB_GRID) << (64 * i) for i in range(2)), "grid"
    if r < 0.4:
        return pow10_near(rng, 128), "p10"
    if r < 0.55:
        return pow2_near(rng, 128), "p2"
    if r < 0.62:
        return rng.choice([0, 1, 2, D - 1, D, D + 1, M128, M128 - 1, U64, U64 - 1]), "const"
    return rand_bits(rng, 128), "rand"


def cofactor_near(rng, a, limit=U256):
    """b such that a*b straddles `limit`."""
    if a == 0:
        return rand_bits(rng)
    b = (limit - 1) // a + rng.choice([-1, 0, 0, 1, 1, 2])
    return max(0, min(b, M256))


def bucket(v):
    """Magnitude bucket of a non-negative int."""
    if v == 0:
        return "0"
    bl = v.bit_length()
    return "b%d" % ((bl + 31) // 32)


def rate(rng):
    """A commission rate / decimal in [0,1] with up to 18 fractional digits (atomics)."""
    r = rng.random()
    if r < 0.18:
        return 0
    if r < 0.34:
        return 3 * 10 ** 15  # factory default 0.003
    if r < 0.42:
        return 1
    if r < 0.50:
        return D
    if r < 0.56:
        return D - 1
    if r < 0.64:
        return rng.choice([3 * 10 ** 16, 5 * 10 ** 17, 10 ** 15, 10 ** 17, 25 * 10 ** 14])
    if r < 0.72:
        return 10 ** rng.randrange(0, 18)
    return rng.randrange(0, D + 1)


def amount128(rng, scale_bits=None):
    """Amounts across magnitudes, 1..2^128-1."""
    if scale_bits is None:
        scale_bits = rng.choice([3, 8, 16, 24, 32, 40, 48, 56, 60, 64, 70, 80, 90, 100, 110, 120, 127, 128])
    r = rng.random()
    if r < 0.15:
        return max(1, min(M128, (1 << scale_bits) + rng.choice([-1, 0, 1])))
    if r < 0.3:
        k = min(38, int(scale_bits * 0.30103))
        return max(1, min(M128, 10 ** k + rng.choice([-1, 0, 1])))
    return max(1, rng.getrandbits(scale_bits) if scale_bits else 1)
