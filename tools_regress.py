#!/usr/bin/env python3
"""dev helper: re-run the quick check of its own property against every seeded change (regression of detection).
Writes /verif/scratch/regress.json and prints one line per seed."""
import glob, json, os, subprocess, sys, time
env = dict(os.environ, VERIF_EVIDENCE_DIR="/verif/scratch/mut/evidence", VERIF_REPLAY_DIR="/verif/scratch/mut/replays")
os.makedirs("/verif/scratch/mut/evidence", exist_ok=True)
update = "--update" in sys.argv
only = [a for a in sys.argv[1:] if a != "--update"]
out = {}
for d in sorted(glob.glob('/verif/seeded/*/')):
    name = os.path.basename(d.rstrip('/'))
    if only and not any(name.startswith(o) for o in only):
        continue
    m = json.load(open(d + 'meta.json'))
    res = m.get('checks_run_against_it', {}).get('results', {})
    prop = m['property']
    expect = res.get(prop, 'VIOLATION')
    ids = [prop] if expect == 'VIOLATION' else [prop] + [k for k, v in res.items() if v == 'VIOLATION' and k != prop][:1]
    st = subprocess.run(['git', '-C', '/repo', 'status', '--porcelain'], capture_output=True, text=True).stdout.strip()
    if st:
        print('REPO NOT CLEAN'); sys.exit(2)
    if subprocess.run(['git', '-C', '/repo', 'apply', d + 'patch.diff']).returncode:
        print(name, 'PATCH DOES NOT APPLY'); continue
    try:
        row = {}
        for pid in ids:
            p = subprocess.run(['./check', pid, '--tier', 'quick'], cwd='/verif', env=env, capture_output=True, text=True)
            row[pid] = {0: 'held', 1: 'VIOLATION', 2: 'inconclusive'}.get(p.returncode, 'rc%d' % p.returncode)
    finally:
        subprocess.run(['git', '-C', '/repo', 'checkout', '--', '.'])
        subprocess.run(['git', '-C', '/repo', 'clean', '-fdq'])
    ok = all(row.get(k) == v for k, v in res.items() if k in row)
    if update and not ok:
        m.setdefault('checks_run_against_it', {}).setdefault('results', {}).update(row)
        m['checks_run_against_it']['re_run'] = 'results updated by tools_regress.py after the checks were strengthened (see DESIGN 9.5)'
        json.dump(m, open(d + 'meta.json', 'w'), indent=1)
    out[name] = row
    print(name, row, '' if ok else '   <-- differs from recorded %s' % {k: res[k] for k in row if k in res}, flush=True)
    json.dump(out, open('/verif/scratch/regress.json', 'w'), indent=1)
