#!/bin/bash
# dev helper: run every quick (or $TIER) check at the given seeds on the current tree; evidence goes to scratch
TIER=${TIER:-quick}
export VERIF_EVIDENCE_DIR=/verif/scratch/sweep/evidence VERIF_REPLAY_DIR=/verif/scratch/sweep/replays
mkdir -p $VERIF_EVIDENCE_DIR
for seed in "$@"; do
  for i in 01 02 03 04 05 06 07 08 09 10 11 12 13 14 15 16 17 18 19 20; do
    s=$(date +%s)
    out=$(VERIF_SEED=$seed ./check C$i --tier $TIER 2>&1); rc=$?
    e=$(date +%s)
    echo "seed=$seed C$i rc=$rc $((e-s))s $(echo "$out" | grep -E "^(INCONCLUSIVE|VIOLATION|  violation|  floors within)" | head -2 | cut -c1-250)"
  done
done
