#!/usr/bin/env python3
"""dev helper: confirm a sub-agent's seeded change and run checks against it, then file it under /verif/seeded/.
usage: tools_seed_pipeline.py <PROP> <A|B> [extra check ids...]"""
import json, os, shutil, subprocess, sys
prop, which = sys.argv[1].upper(), sys.argv[2]
extra = [a.upper() for a in sys.argv[3:]]
src = '/tmp/seed-%s/%s' % (prop, which)
v = subprocess.run(['/verif/tools_verify_seed.py', src], capture_output=True, text=True)
try:
    ver = json.loads(v.stdout[v.stdout.index('{'):])
except Exception:
    print('verification failed:', v.stdout[-800:], v.stderr[-800:]); sys.exit(2)
ok = (ver['suite_with_patch'] == [101, 0] and all('FAILED' in x or 'error' in x for x in ver['demo_with_patch'])
      and all('FAILED' not in x and 'ok.' in x for x in ver['demo_at_head']) and ver['demo_with_patch'])
print('confirmed' if ok else 'NOT CONFIRMED', json.dumps(ver))
if not ok:
    sys.exit(1)
ids = [prop] + [e for e in extra if e != prop]
m = subprocess.run(['/verif/tools_mutant.py', src + '/patch.diff'] + ids, capture_output=True, text=True)
print(m.stdout)
res = json.loads(m.stdout.strip().splitlines()[-1])
dst = '/verif/seeded/%s-%s' % (prop, which)
os.makedirs(dst, exist_ok=True)
for f in ('patch.diff', 'demo.diff', 'notes.md'):
    if os.path.exists(os.path.join(src, f)):
        shutil.copy(os.path.join(src, f), dst)
notes = open(os.path.join(src, 'notes.md')).read() if os.path.exists(os.path.join(src, 'notes.md')) else ''
meta = {'property': prop, 'origin': 'independent sub-agent given only the property text and a scratch worktree',
        'confirmed_by_me': {'suite_with_patch_passed_failed': ver['suite_with_patch'], 'demo_with_patch': ver['demo_with_patch'],
                            'demo_at_head': ver['demo_at_head'], 'demo_cmds': ver['demo_cmds'],
                            'how': 'tools_verify_seed.py in scratch worktree /tmp/wt-own (removed afterwards)'},
        'checks_run_against_it': {'tier': 'quick', 'seed': 1, 'results': res,
                                  'how': 'git -C /repo apply patch.diff; ./check <id> --tier quick; git -C /repo checkout -- .'},
        'needs_to_manifest': 'see notes.md'}
json.dump(meta, open(os.path.join(dst, 'meta.json'), 'w'), indent=1)
print('filed', dst)
