#!/usr/bin/env python3
"""dev helper: regenerate the seed table (tools_seeded_table.py) in place in DESIGN.md and seeded/README.md."""
import re, subprocess
tab = subprocess.run(["python3", "/verif/tools_seeded_table.py"], stdout=subprocess.PIPE, text=True).stdout.strip()
for p in ("/verif/DESIGN.md", "/verif/seeded/README.md"):
    s = open(p).read()
    m = re.search(r"\| seed \| what it changes .*?\n\d+ seeded changes, \d+ caught by the check of their own property", s, re.S)
    assert m, p
    open(p, "w").write(s[:m.start()] + tab + s[m.end():])
print(tab.splitlines()[-1])
