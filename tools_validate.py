#!/usr/bin/env python3-vt
"""Validate MANIFEST.json and evidence/*.json against the schemas (dev helper)."""
import json, sys, glob, jsonschema
m = json.load(open('/verif/MANIFEST.json'))
jsonschema.validate(m, json.load(open('/root/.vp/MANIFEST.schema.json')))
es = json.load(open('/root/.vp/EVIDENCE.schema.json'))
bad = 0
for f in sorted(glob.glob('/verif/evidence/*.json')):
    try:
        jsonschema.validate(json.load(open(f)), es)
    except Exception as e:
        bad += 1
        print('INVALID', f, str(e)[:300])
props = [json.loads(l)['id'] for l in open('/verif/properties.jsonl')]
claimed = [c['property_id'] for c in m['checks']]
na = [c['property_id'] for c in m.get('not_applicable', [])]
missing = [p for p in props if p not in claimed and p not in na]
print('manifest ok; claimed=%d na=%d unlisted=%s evidence_invalid=%d' % (len(claimed), len(na), missing, bad))
