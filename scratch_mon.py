import sys, time, json
sys.path.insert(0,'.')
from mon.core import Acc, Server
from mon import wrun, monitors
names=sys.argv[1].split(','); n=int(sys.argv[2]); steps=int(sys.argv[3]) if len(sys.argv)>3 else 200
seed=int(sys.argv[4]) if len(sys.argv)>4 else 1
acc=Acc(); srv=Server(); t=time.time(); tot=0
for wi in range(n):
    w=wrun.run_world(acc, srv, (seed,'dbg','quick',0,wi), lambda w,a:[(monitors.Router(w,a,x.split(":")[1]) if x.startswith("Router") else getattr(monitors,x)(w,a)) for x in names], None, steps)
    tot+=w.nstep
print('steps',tot,'in',round(time.time()-t,1),'s; evals',acc.evaluations,'classes',len(acc.classes))
for k,v in sorted(acc.counters.items()): print(' ',k,v)
print('known',acc.known)
print('violations',len(acc.violations))
for v in acc.violations[:8]:
    print('-',v['what'][:600]); print('   ',json.dumps(v['case'],default=str)[:900])
