#!/usr/bin/env python3
"""dev helper: confirm a seeded change in a scratch worktree (/tmp/wt-own):
 suite passes with patch; demo fails with patch; demo passes without patch.  usage: tools_verify_seed.py <dir with patch.diff demo.diff>"""
import os, re, subprocess, sys, json
WT = '/tmp/wt-own'
d = os.path.abspath(sys.argv[1])
def sh(cmd, **kw):
    return subprocess.run(cmd, shell=True, cwd=WT, capture_output=True, text=True, **kw)
def suite():
    r = sh('cargo test --workspace --no-fail-fast --offline 2>&1 | grep -E "^test result"')
    p = sum(int(l.split()[3]) for l in r.stdout.splitlines()); f = sum(int(l.split()[5]) for l in r.stdout.splitlines())
    return p, f
def clean():
    sh('git checkout -- . && git clean -fdq')
clean()
demo = open(os.path.join(d, 'demo.diff')).read()
files = re.findall(r'^\+\+\+ b/(.+)$', demo, re.M)
# how to run the demo
cmds = []
for f in files:
    m = re.match(r'(contracts|packages)/([^/]+)/tests/([^/]+)\.rs$', f)
    if m:
        cmds.append('cargo test -p %s --test %s --offline' % (m.group(2), m.group(3)))
if not cmds:
    # unit tests added inside the crate: filter by the new module's name
    for f in files:
        m = re.match(r'(contracts|packages)/([^/]+)/src/(?:.*/)?([^/]+)\.rs$', f)
        if m and m.group(3) not in ('mod', 'lib'):
            cmds.append('cargo test -p %s --offline %s' % (m.group(2), m.group(3)))
out = {}
assert sh('git apply %s/patch.diff' % d).returncode == 0, 'patch does not apply'
out['suite_with_patch'] = suite()
assert sh('git apply %s/demo.diff' % d).returncode == 0, 'demo does not apply'
res = []
for c in cmds:
    r = sh(c + ' 2>&1 | grep -E "^test result|^error: test failed" | head -4')
    res.append(r.stdout.strip().replace('\n', ' | ')[:200])
out['demo_with_patch'] = res
sh('git apply -R %s/patch.diff' % d)
res = []
for c in cmds:
    r = sh(c + ' 2>&1 | grep -E "^test result|^error: test failed" | head -4')
    res.append(r.stdout.strip().replace('\n', ' | ')[:200])
out['demo_at_head'] = res
out['demo_cmds'] = cmds
clean()
print(json.dumps(out, indent=1))
