#!/usr/bin/env python3
"""dev helper: apply a patch to /repo, run quick checks, restore /repo.
usage: tools_mutant.py <patch.diff> [ID ...]   (default: all 20).  Evidence/replays go to /verif/scratch/mut/."""
import json, os, subprocess, sys, time
patch = os.path.abspath(sys.argv[1])
ids = [a.upper() for a in sys.argv[2:]] or ["C%02d" % i for i in range(1, 21)]
tier = os.environ.get("MUT_TIER", "quick")
env = dict(os.environ, VERIF_EVIDENCE_DIR="/verif/scratch/mut/evidence", VERIF_REPLAY_DIR="/verif/scratch/mut/replays")
os.makedirs("/verif/scratch/mut/evidence", exist_ok=True)
st = subprocess.run(["git", "-C", "/repo", "status", "--porcelain"], capture_output=True, text=True).stdout.strip()
if st:
    print("REFUSING: /repo working tree is not clean:\n" + st); sys.exit(2)
r = subprocess.run(["git", "-C", "/repo", "apply", patch], capture_output=True, text=True)
if r.returncode:
    print("patch does not apply:", r.stderr); sys.exit(2)
res = {}
try:
    for pid in ids:
        t = time.time()
        p = subprocess.run(["./check", pid, "--tier", tier], cwd="/verif", env=env, capture_output=True, text=True)
        lines = p.stdout.strip().splitlines()
        verdict = {0: "held", 1: "VIOLATION", 2: "inconclusive"}.get(p.returncode, "rc%d" % p.returncode)
        first = next((l for l in lines if l.strip().startswith("violation:")), "")
        if verdict == "inconclusive":
            first = next((l for l in lines if l.startswith("INCONCLUSIVE")), "")
        res[pid] = verdict
        print("%s %-12s %5.1fs %s" % (pid, verdict, time.time() - t, first.strip()[:230]), flush=True)
finally:
    subprocess.run(["git", "-C", "/repo", "checkout", "--", "."])
    subprocess.run(["git", "-C", "/repo", "clean", "-fdq"])
print(json.dumps(res))
