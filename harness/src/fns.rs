#![allow(unused_imports, dead_code)]
//! fn mode: direct calls of exported functions and operators of the crates under /repo.
//! Operands cross the boundary as raw limbs (U256 = [l0,l1,l2,l3], little endian)
//! or decimal strings (u128), so that the text conversions under test are not
//! part of the oracle's own I/O path.

use std::convert::TryFrom;
use std::str::FromStr;

use bigint::U256;
use bignumber::{Decimal256, Uint256};
use cosmwasm_std::{
    from_slice, to_vec, Addr, CanonicalAddr, Coin, Decimal, MessageInfo, Uint128,
};
use haloswap::asset::{Asset, AssetInfo, AssetInfoRaw, CreatePairRequirements, PairInfoRaw};
use serde_json::{json, Value};

use crate::Out;

// Direct calls of exported helper functions are grouped behind cargo features (all on by default). If a change in
// /repo alters the signature of one of these helpers the adapter would stop compiling; the build then falls back to
// dropping the affected group (mon/core.py: build_harness), so that the system-level legs still run.

fn limbs(v: &Value) -> U256 {
    let a = v.as_array().expect("limbs");
    U256([
        a[0].as_u64().expect("limb"),
        a[1].as_u64().expect("limb"),
        a[2].as_u64().expect("limb"),
        a[3].as_u64().expect("limb"),
    ])
}
fn out_limbs(u: U256) -> Value {
    let U256(ref l) = u;
    json!([l[0], l[1], l[2], l[3]])
}
fn u128_of(v: &Value) -> u128 {
    v.as_str().expect("u128 str").parse::<u128>().expect("u128")
}
fn opt_decimal(v: &Value) -> Option<Decimal> {
    if v.is_null() {
        None
    } else {
        Some(Decimal::new(Uint128::new(u128_of(v))))
    }
}
fn asset_info(v: &Value) -> AssetInfo {
    if let Some(d) = v.get("native").and_then(|x| x.as_str()) {
        AssetInfo::NativeToken {
            denom: d.to_string(),
        }
    } else {
        AssetInfo::Token {
            contract_addr: v["token"].as_str().expect("token").to_string(),
        }
    }
}
fn asset_info_raw(v: &Value) -> AssetInfoRaw {
    if let Some(d) = v.get("native").and_then(|x| x.as_str()) {
        AssetInfoRaw::NativeToken {
            denom: d.to_string(),
        }
    } else {
        let h = v["token_hex"].as_str().expect("token_hex");
        let bytes: Vec<u8> = (0..h.len() / 2)
            .map(|i| u8::from_str_radix(&h[2 * i..2 * i + 2], 16).unwrap())
            .collect();
        AssetInfoRaw::Token {
            contract_addr: CanonicalAddr::from(bytes),
        }
    }
}
fn ord(o: std::cmp::Ordering) -> i64 {
    match o {
        std::cmp::Ordering::Less => -1,
        std::cmp::Ordering::Equal => 0,
        std::cmp::Ordering::Greater => 1,
    }
}

pub fn call(f: &str, a: &Value) -> Out {
    match f {
        // ---- formulas -------------------------------------------------------
        #[cfg(feature = "fn_formulas")]
        "compute_swap" => {
            let (r, s, c) = haloswap::formulas::compute_swap(
                Uint128::new(u128_of(&a[0])),
                Uint128::new(u128_of(&a[1])),
                Uint128::new(u128_of(&a[2])),
                Decimal256(limbs(&a[3])),
            );
            Out::Ok(json!([r.to_string(), s.to_string(), c.to_string()]))
        }
        #[cfg(feature = "fn_formulas")]
        "compute_offer_amount" => {
            let (r, s, c) = haloswap::formulas::compute_offer_amount(
                Uint128::new(u128_of(&a[0])),
                Uint128::new(u128_of(&a[1])),
                Uint128::new(u128_of(&a[2])),
                Decimal256(limbs(&a[3])),
            );
            Out::Ok(json!([r.to_string(), s.to_string(), c.to_string()]))
        }
        #[cfg(feature = "fn_formulas")]
        "lp_share" => {
            // [total, d0, d1, p0, p1, sender, [whitelist], min0, min1]
            let info = MessageInfo {
                sender: Addr::unchecked(a[5].as_str().unwrap_or("sender")),
                funds: vec![],
            };
            let wl: Vec<Addr> = a[6]
                .as_array()
                .map(|x| {
                    x.iter()
                        .map(|y| Addr::unchecked(y.as_str().unwrap_or("")))
                        .collect()
                })
                .unwrap_or_default();
            let pair_info = PairInfoRaw {
                asset_infos: [
                    AssetInfoRaw::NativeToken {
                        denom: "da".to_string(),
                    },
                    AssetInfoRaw::NativeToken {
                        denom: "db".to_string(),
                    },
                ],
                contract_addr: CanonicalAddr::from(vec![1u8]),
                liquidity_token: CanonicalAddr::from(vec![2u8]),
                asset_decimals: [6, 6],
                requirements: CreatePairRequirements {
                    whitelist: wl,
                    first_asset_minimum: Uint128::new(u128_of(&a[7])),
                    second_asset_minimum: Uint128::new(u128_of(&a[8])),
                },
                commission_rate: Decimal256::zero(),
            };
            let pools = [
                Asset {
                    info: AssetInfo::NativeToken {
                        denom: "da".to_string(),
                    },
                    amount: Uint128::new(u128_of(&a[3])),
                },
                Asset {
                    info: AssetInfo::NativeToken {
                        denom: "db".to_string(),
                    },
                    amount: Uint128::new(u128_of(&a[4])),
                },
            ];
            match haloswap::formulas::calculate_lp_token_amount_to_user(
                &info,
                &pair_info,
                Uint128::new(u128_of(&a[0])),
                [Uint128::new(u128_of(&a[1])), Uint128::new(u128_of(&a[2]))],
                pools,
            ) {
                Ok(v) => Out::Ok(json!(v.to_string())),
                Err(e) => Out::Err(e.to_string()),
            }
        }
        #[cfg(feature = "fn_guards")]
        "assert_max_spread" => {
            // [belief|null, max_spread|null, offer, ret, spread, od, rd]
            let offer = Asset {
                info: AssetInfo::NativeToken {
                    denom: "da".to_string(),
                },
                amount: Uint128::new(u128_of(&a[2])),
            };
            let ret = Asset {
                info: AssetInfo::NativeToken {
                    denom: "db".to_string(),
                },
                amount: Uint128::new(u128_of(&a[3])),
            };
            match halo_pair::assert::assert_max_spread(
                opt_decimal(&a[0]),
                opt_decimal(&a[1]),
                offer,
                ret,
                Uint128::new(u128_of(&a[4])),
                a[5].as_u64().unwrap() as u8,
                a[6].as_u64().unwrap() as u8,
            ) {
                Ok(_) => Out::Ok(Value::Null),
                Err(e) => Out::Err(e.to_string()),
            }
        }
        #[cfg(feature = "fn_guards")]
        "assert_slippage_tolerance" => {
            // [tol|null, d0, d1, p0, p1]
            let pools = [
                Asset {
                    info: AssetInfo::NativeToken {
                        denom: "da".to_string(),
                    },
                    amount: Uint128::new(u128_of(&a[3])),
                },
                Asset {
                    info: AssetInfo::NativeToken {
                        denom: "db".to_string(),
                    },
                    amount: Uint128::new(u128_of(&a[4])),
                },
            ];
            match halo_pair::assert::assert_slippage_tolerance(
                &opt_decimal(&a[0]),
                &[Uint128::new(u128_of(&a[1])), Uint128::new(u128_of(&a[2]))],
                &pools,
            ) {
                Ok(_) => Out::Ok(Value::Null),
                Err(e) => Out::Err(e.to_string()),
            }
        }
        #[cfg(feature = "fn_asset")]
        "assert_sent_native" => {
            // [asset_info, amount, [[denom, amt], ...]]
            let asset = Asset {
                info: asset_info(&a[0]),
                amount: Uint128::new(u128_of(&a[1])),
            };
            let funds: Vec<Coin> = a[2]
                .as_array()
                .map(|x| {
                    x.iter()
                        .map(|c| Coin {
                            denom: c[0].as_str().unwrap_or("").to_string(),
                            amount: Uint128::new(u128_of(&c[1])),
                        })
                        .collect()
                })
                .unwrap_or_default();
            let info = MessageInfo {
                sender: Addr::unchecked("sender"),
                funds,
            };
            match asset.assert_sent_native_token_balance(&info) {
                Ok(_) => Out::Ok(Value::Null),
                Err(e) => Out::Err(e.to_string()),
            }
        }
        #[cfg(feature = "fn_factory")]
        "pair_key" => {
            let k = halo_factory::state::pair_key(&[asset_info_raw(&a[0]), asset_info_raw(&a[1])]);
            Out::Ok(json!(crate::hex(&k)))
        }
        #[cfg(feature = "fn_router")]
        "assert_operations" => {
            // [[offer_info, ask_info], ...]
            let ops: Vec<haloswap::router::SwapOperation> = a
                .as_array()
                .map(|x| {
                    x.iter()
                        .map(|o| haloswap::router::SwapOperation::HaloSwap {
                            offer_asset_info: asset_info(&o[0]),
                            ask_asset_info: asset_info(&o[1]),
                        })
                        .collect()
                })
                .unwrap_or_default();
            match halo_router::assert::assert_operations(&ops) {
                Ok(_) => Out::Ok(Value::Null),
                Err(e) => Out::Err(e.to_string()),
            }
        }

        // ---- Uint256 --------------------------------------------------------
        "u_add" => Out::Ok(out_limbs((Uint256(limbs(&a[0])) + Uint256(limbs(&a[1]))).0)),
        "u_add_assign" => {
            let mut x = Uint256(limbs(&a[0]));
            x += Uint256(limbs(&a[1]));
            Out::Ok(out_limbs(x.0))
        }
        "u_sub" => Out::Ok(out_limbs((Uint256(limbs(&a[0])) - Uint256(limbs(&a[1]))).0)),
        "u_mul" => Out::Ok(out_limbs((Uint256(limbs(&a[0])) * Uint256(limbs(&a[1]))).0)),
        "u_mulratio" => Out::Ok(out_limbs(
            Uint256(limbs(&a[0]))
                .multiply_ratio(limbs(&a[1]), limbs(&a[2]))
                .0,
        )),
        "u_mul_dec" => Out::Ok(out_limbs(
            (Uint256(limbs(&a[0])) * Decimal256(limbs(&a[1]))).0,
        )),
        "dec_mul_u" => Out::Ok(out_limbs(
            (Decimal256(limbs(&a[0])) * Uint256(limbs(&a[1]))).0,
        )),
        "u_div_dec" => Out::Ok(out_limbs(
            (Uint256(limbs(&a[0])) / Decimal256(limbs(&a[1]))).0,
        )),
        "u_cmp" => {
            let (x, y) = (Uint256(limbs(&a[0])), Uint256(limbs(&a[1])));
            Out::Ok(json!([ord(x.cmp(&y)), x == y, x < y, x <= y, x > y, x >= y]))
        }
        "u_is_zero" => Out::Ok(json!(Uint256(limbs(&a[0])).is_zero())),
        "u_from_u128" => Out::Ok(out_limbs(Uint256::from(u128_of(&a[0])).0)),
        "u_from_uint128" => Out::Ok(out_limbs(Uint256::from(Uint128::new(u128_of(&a[0]))).0)),
        "u_from_u64" => Out::Ok(out_limbs(Uint256::from(a[0].as_u64().unwrap()).0)),
        "u_to_u128" => {
            let v: u128 = Uint256(limbs(&a[0])).into();
            Out::Ok(json!(v.to_string()))
        }
        "u_to_uint128" => {
            let v: Uint128 = Uint256(limbs(&a[0])).into();
            Out::Ok(json!(v.to_string()))
        }
        "u_to_string" => Out::Ok(json!(Uint256(limbs(&a[0])).to_string())),
        "u_into_string" => {
            let s: String = Uint256(limbs(&a[0])).into();
            Out::Ok(json!(s))
        }
        "u_from_str" => match Uint256::from_str(a[0].as_str().unwrap()) {
            Ok(v) => Out::Ok(out_limbs(v.0)),
            Err(e) => Out::Err(e.to_string()),
        },
        "u_try_from_str" => match Uint256::try_from(a[0].as_str().unwrap()) {
            Ok(v) => Out::Ok(out_limbs(v.0)),
            Err(e) => Out::Err(e.to_string()),
        },
        "u_json_ser" => match to_vec(&Uint256(limbs(&a[0]))) {
            Ok(b) => Out::Ok(json!(String::from_utf8_lossy(&b))),
            Err(e) => Out::Err(e.to_string()),
        },
        "u_json_de" => match from_slice::<Uint256>(a[0].as_str().unwrap().as_bytes()) {
            Ok(v) => Out::Ok(out_limbs(v.0)),
            Err(e) => Out::Err(e.to_string()),
        },

        // ---- Decimal256 -----------------------------------------------------
        "d_add" => Out::Ok(out_limbs(
            (Decimal256(limbs(&a[0])) + Decimal256(limbs(&a[1]))).0,
        )),
        "d_add_assign" => {
            let mut x = Decimal256(limbs(&a[0]));
            x += Decimal256(limbs(&a[1]));
            Out::Ok(out_limbs(x.0))
        }
        "d_sub" => Out::Ok(out_limbs(
            (Decimal256(limbs(&a[0])) - Decimal256(limbs(&a[1]))).0,
        )),
        "d_mul" => Out::Ok(out_limbs(
            (Decimal256(limbs(&a[0])) * Decimal256(limbs(&a[1]))).0,
        )),
        "d_div" => Out::Ok(out_limbs(
            (Decimal256(limbs(&a[0])) / Decimal256(limbs(&a[1]))).0,
        )),
        "d_from_ratio" => Out::Ok(out_limbs(
            Decimal256::from_ratio(limbs(&a[0]), limbs(&a[1])).0,
        )),
        "d_from_uint256" => Out::Ok(out_limbs(
            Decimal256::from_uint256(Uint256(limbs(&a[0]))).0,
        )),
        "d_percent" => Out::Ok(out_limbs(Decimal256::percent(a[0].as_u64().unwrap()).0)),
        "d_permille" => Out::Ok(out_limbs(Decimal256::permille(a[0].as_u64().unwrap()).0)),
        "d_one" => Out::Ok(out_limbs(Decimal256::one().0)),
        "d_zero" => Out::Ok(out_limbs(Decimal256::zero().0)),
        "d_cmp" => {
            let (x, y) = (Decimal256(limbs(&a[0])), Decimal256(limbs(&a[1])));
            Out::Ok(json!([ord(x.cmp(&y)), x == y, x < y, x <= y, x > y, x >= y]))
        }
        "d_is_zero" => Out::Ok(json!(Decimal256(limbs(&a[0])).is_zero())),
        "d_to_string" => Out::Ok(json!(Decimal256(limbs(&a[0])).to_string())),
        "d_fmt" => {
            // the same Display, driven through format specifications (precision / width / fill / alignment)
            let d = Decimal256(limbs(&a[0]));
            let prec = a[1].as_u64().map(|x| x as usize);
            let width = a[2].as_u64().map(|x| x as usize);
            let left = a[3].as_bool().unwrap_or(false);
            let s = match (prec, width, left) {
                (Some(p), Some(w), false) => format!("{:>w$.p$}", d, w = w, p = p),
                (Some(p), Some(w), true) => format!("{:<w$.p$}", d, w = w, p = p),
                (Some(p), None, _) => format!("{:.p$}", d, p = p),
                (None, Some(w), false) => format!("{:>w$}", d, w = w),
                (None, Some(w), true) => format!("{:<w$}", d, w = w),
                (None, None, _) => format!("{}", d),
            };
            Out::Ok(json!(s))
        }
        "u_fmt" => {
            let u = Uint256(limbs(&a[0]));
            let prec = a[1].as_u64().map(|x| x as usize);
            let width = a[2].as_u64().map(|x| x as usize);
            let s = match (prec, width) {
                (Some(p), Some(w)) => format!("{:>w$.p$}", u, w = w, p = p),
                (Some(p), None) => format!("{:.p$}", u, p = p),
                (None, Some(w)) => format!("{:>w$}", u, w = w),
                (None, None) => format!("{}", u),
            };
            Out::Ok(json!(s))
        }
        "d_from_str" => match Decimal256::from_str(a[0].as_str().unwrap()) {
            Ok(v) => Out::Ok(out_limbs(v.0)),
            Err(e) => Out::Err(e.to_string()),
        },
        "d_json_ser" => match to_vec(&Decimal256(limbs(&a[0]))) {
            Ok(b) => Out::Ok(json!(String::from_utf8_lossy(&b))),
            Err(e) => Out::Err(e.to_string()),
        },
        "d_json_de" => match from_slice::<Decimal256>(a[0].as_str().unwrap().as_bytes()) {
            Ok(v) => Out::Ok(out_limbs(v.0)),
            Err(e) => Out::Err(e.to_string()),
        },
        "d_from_decimal" => {
            let d = Decimal::new(Uint128::new(u128_of(&a[0])));
            Out::Ok(out_limbs(Decimal256::from(d).0))
        }
        "d_to_decimal" => {
            let d: Decimal = Decimal256(limbs(&a[0])).into();
            Out::Ok(json!(d.atomics().to_string()))
        }
        _ => Out::Err(format!("unknown fn {}", f)),
    }
}
