//! halosrv — thin adapter between the Python monitors and the real crates in /repo.
//!
//! It reads one JSON value per line from stdin (an object = one request, an
//! array = a batch of requests) and prints one JSON value per line to stdout.
//! It contains no property logic and no expected values: it only executes the
//! request against the code under /repo and reports what happened
//! (`ok` + values, `err` + text, `panic` + message).

use std::cell::RefCell;
use std::collections::BTreeMap;
use std::io::{self, BufRead, Write};
use std::panic::{catch_unwind, AssertUnwindSafe};

use cosmwasm_std::{
    to_vec, Addr, BankMsg, BankQuery, Binary, Coin, ContractResult, CosmosMsg, Empty, Querier,
    QueryRequest, SystemResult, Uint128, WasmMsg, WasmQuery,
};
use cw_multi_test::{App, AppBuilder, Contract, ContractWrapper, Executor};
use serde_json::{json, Value};

mod fns;
mod ltoken;
mod proxy;

thread_local! {
    static LAST_PANIC: RefCell<String> = RefCell::new(String::new());
}

pub enum Out {
    Ok(Value),
    Err(String),
}

fn out_json(r: std::thread::Result<Out>) -> Value {
    match r {
        Ok(Out::Ok(v)) => json!({"r":"ok","v":v}),
        Ok(Out::Err(e)) => json!({"r":"err","e":e}),
        Err(_) => {
            let m = LAST_PANIC.with(|c| c.borrow().clone());
            json!({"r":"panic","e":m})
        }
    }
}

// ---------------------------------------------------------------------------
// world mode

fn factory_code() -> Box<dyn Contract<Empty>> {
    Box::new(
        ContractWrapper::new(
            halo_factory::contract::execute,
            halo_factory::contract::instantiate,
            halo_factory::contract::query,
        )
        .with_reply(halo_factory::contract::reply)
        .with_migrate(halo_factory::contract::migrate),
    )
}
fn pair_code() -> Box<dyn Contract<Empty>> {
    Box::new(
        ContractWrapper::new(
            halo_pair::contract::execute,
            halo_pair::contract::instantiate,
            halo_pair::contract::query,
        )
        .with_reply(halo_pair::contract::reply)
        .with_migrate(halo_pair::contract::migrate),
    )
}
fn router_code() -> Box<dyn Contract<Empty>> {
    Box::new(
        ContractWrapper::new(
            halo_router::contract::execute,
            halo_router::contract::instantiate,
            halo_router::contract::query,
        )
        .with_migrate(halo_router::contract::migrate),
    )
}
fn cw20_code() -> Box<dyn Contract<Empty>> {
    Box::new(ContractWrapper::new(
        cw20_base::contract::execute,
        cw20_base::contract::instantiate,
        cw20_base::contract::query,
    ))
}

fn ltoken_code() -> Box<dyn Contract<Empty>> {
    Box::new(
        ContractWrapper::new(ltoken::execute, ltoken::instantiate, ltoken::query)
            .with_migrate(ltoken::migrate),
    )
}

fn proxy_code() -> Box<dyn Contract<Empty>> {
    Box::new(proxy::Proxy)
}

#[derive(Default)]
struct Track {
    accounts: Vec<String>,
    denoms: Vec<String>,
    tokens: Vec<String>,
    contracts: Vec<String>,
    allowances: Vec<(String, String, String)>,
}

struct World {
    app: App,
    codes: BTreeMap<String, u64>,
    track: Track,
}

fn s(v: &Value, k: &str) -> String {
    v.get(k).and_then(|x| x.as_str()).unwrap_or("").to_string()
}
fn strs(v: &Value, k: &str) -> Vec<String> {
    v.get(k)
        .and_then(|x| x.as_array())
        .map(|a| {
            a.iter()
                .map(|x| x.as_str().unwrap_or("").to_string())
                .collect()
        })
        .unwrap_or_default()
}
fn funds_of(v: &Value) -> Vec<Coin> {
    v.get("funds")
        .and_then(|x| x.as_array())
        .map(|a| {
            a.iter()
                .map(|c| Coin {
                    denom: c[0].as_str().unwrap_or("").to_string(),
                    amount: Uint128::new(c[1].as_str().unwrap_or("0").parse::<u128>().unwrap_or(0)),
                })
                .collect()
        })
        .unwrap_or_default()
}

fn fnv(records: &mut Vec<(Vec<u8>, Vec<u8>)>) -> String {
    records.sort();
    let mut h1: u64 = 0xcbf29ce484222325;
    let mut h2: u64 = 0x84222325cbf29ce4;
    let mut feed = |b: &[u8]| {
        for x in (b.len() as u32).to_le_bytes().iter().chain(b.iter()) {
            h1 = (h1 ^ (*x as u64)).wrapping_mul(0x100000001b3);
            h2 = (h2 ^ (*x as u64)).wrapping_mul(0x9E3779B97F4A7C15).rotate_left(23);
        }
    };
    for (k, v) in records.iter() {
        feed(k);
        feed(v);
    }
    format!("{:016x}{:016x}", h1, h2)
}

impl World {
    fn new(req: &Value) -> World {
        let mut per: BTreeMap<String, Vec<Coin>> = BTreeMap::new();
        if let Some(a) = req.get("balances").and_then(|x| x.as_array()) {
            for b in a {
                per.entry(b[0].as_str().unwrap().to_string())
                    .or_default()
                    .push(Coin {
                        denom: b[1].as_str().unwrap().to_string(),
                        amount: Uint128::new(b[2].as_str().unwrap().parse::<u128>().unwrap()),
                    });
            }
        }
        let mut app = AppBuilder::new().build(|router, _, storage| {
            for (acct, coins) in per.iter() {
                router
                    .bank
                    .init_balance(storage, &Addr::unchecked(acct), coins.clone())
                    .unwrap();
            }
        });
        let mut codes = BTreeMap::new();
        codes.insert("factory".to_string(), app.store_code(factory_code()));
        codes.insert("pair".to_string(), app.store_code(pair_code()));
        codes.insert("router".to_string(), app.store_code(router_code()));
        codes.insert("cw20".to_string(), app.store_code(cw20_code()));
        codes.insert("pair2".to_string(), app.store_code(pair_code()));
        codes.insert("ltoken".to_string(), app.store_code(ltoken_code()));
        codes.insert("proxy".to_string(), app.store_code(proxy_code()));
        World {
            app,
            codes,
            track: Track::default(),
        }
    }

    fn events_json(resp: &cw_multi_test::AppResponse) -> Value {
        Value::Array(
            resp.events
                .iter()
                .map(|e| {
                    json!({"ty": e.ty, "a": e.attributes.iter().map(|a| json!([a.key, a.value])).collect::<Vec<_>>()})
                })
                .collect(),
        )
    }

    fn run_msg(&mut self, sender: &str, msg: CosmosMsg) -> Value {
        let app = &mut self.app;
        let r = catch_unwind(AssertUnwindSafe(|| {
            match app.execute(Addr::unchecked(sender), msg) {
                Ok(resp) => Out::Ok(json!({"events": World::events_json(&resp),
                    "data": resp.data.as_ref().map(|d| d.to_base64())})),
                Err(e) => Out::Err(format!("{}\u{1f}{:#}", e.root_cause(), e)),
            }
        }));
        out_json(r)
    }

    fn query_raw(&self, contract: &str, msg: &str) -> Value {
        let app = &self.app;
        let r = catch_unwind(AssertUnwindSafe(|| {
            let req: QueryRequest<Empty> = QueryRequest::Wasm(WasmQuery::Smart {
                contract_addr: contract.to_string(),
                msg: Binary(msg.as_bytes().to_vec()),
            });
            let bin = match to_vec(&req) {
                Ok(b) => b,
                Err(e) => return Out::Err(e.to_string()),
            };
            match app.raw_query(&bin) {
                SystemResult::Ok(ContractResult::Ok(b)) => {
                    match serde_json::from_slice::<Value>(b.as_slice()) {
                        Ok(v) => Out::Ok(v),
                        Err(e) => Out::Err(format!("undecodable response: {}", e)),
                    }
                }
                SystemResult::Ok(ContractResult::Err(e)) => Out::Err(e),
                SystemResult::Err(e) => Out::Err(e.to_string()),
            }
        }));
        out_json(r)
    }

    fn bank_balance(&self, acct: &str, denom: &str) -> String {
        let req: QueryRequest<Empty> = QueryRequest::Bank(BankQuery::Balance {
            address: acct.to_string(),
            denom: denom.to_string(),
        });
        match self.app.raw_query(&to_vec(&req).unwrap()) {
            SystemResult::Ok(ContractResult::Ok(b)) => {
                let v: Value = serde_json::from_slice(b.as_slice()).unwrap_or(Value::Null);
                v["amount"]["amount"].as_str().unwrap_or("?").to_string()
            }
            _ => "?".to_string(),
        }
    }

    fn smart(&self, contract: &str, msg: Value) -> Value {
        let req: QueryRequest<Empty> = QueryRequest::Wasm(WasmQuery::Smart {
            contract_addr: contract.to_string(),
            msg: Binary(msg.to_string().into_bytes()),
        });
        match self.app.raw_query(&to_vec(&req).unwrap()) {
            SystemResult::Ok(ContractResult::Ok(b)) => {
                serde_json::from_slice(b.as_slice()).unwrap_or(Value::Null)
            }
            _ => Value::Null,
        }
    }

    fn snapshot(&self) -> Value {
        let t = &self.track;
        let bank: Vec<Value> = t
            .accounts
            .iter()
            .map(|a| {
                Value::Array(
                    t.denoms
                        .iter()
                        .map(|d| Value::String(self.bank_balance(a, d)))
                        .collect(),
                )
            })
            .collect();
        let cw20: Vec<Value> = t
            .tokens
            .iter()
            .map(|tok| {
                Value::Array(
                    t.accounts
                        .iter()
                        .map(|a| {
                            let v = self.smart(tok, json!({"balance":{"address":a}}));
                            Value::String(v["balance"].as_str().unwrap_or("?").to_string())
                        })
                        .collect(),
                )
            })
            .collect();
        let supply: Vec<Value> = t
            .tokens
            .iter()
            .map(|tok| {
                let v = self.smart(tok, json!({"token_info":{}}));
                Value::String(v["total_supply"].as_str().unwrap_or("?").to_string())
            })
            .collect();
        let allow: Vec<Value> = t
            .allowances
            .iter()
            .map(|(tok, o, sp)| {
                let v = self.smart(tok, json!({"allowance":{"owner":o,"spender":sp}}));
                Value::String(v["allowance"].as_str().unwrap_or("?").to_string())
            })
            .collect();
        let dig: Vec<Value> = t
            .contracts
            .iter()
            .map(|c| {
                let mut recs = self.app.dump_wasm_raw(&Addr::unchecked(c));
                Value::String(fnv(&mut recs))
            })
            .collect();
        json!({"bank":bank,"cw20":cw20,"supply":supply,"allow":allow,"dig":dig})
    }

    fn handle(&mut self, req: &Value) -> Value {
        let op = s(req, "op");
        match op.as_str() {
            "inst" => {
                let code = s(req, "code");
                let code_id = match self.codes.get(&code) {
                    Some(c) => *c,
                    None => req.get("code_id").and_then(|x| x.as_u64()).unwrap_or(0),
                };
                let admin = req.get("admin").and_then(|x| x.as_str()).map(|x| x.to_string());
                let msg = CosmosMsg::Wasm(WasmMsg::Instantiate {
                    admin,
                    code_id,
                    msg: Binary(s(req, "msg").into_bytes()),
                    funds: funds_of(req),
                    label: s(req, "label"),
                });
                let sender = s(req, "sender");
                self.run_msg(&sender, msg)
            }
            "exec" => {
                let msg = CosmosMsg::Wasm(WasmMsg::Execute {
                    contract_addr: s(req, "contract"),
                    msg: Binary(s(req, "msg").into_bytes()),
                    funds: funds_of(req),
                });
                let sender = s(req, "sender");
                let mut r = self.run_msg(&sender, msg);
                if req.get("snap").and_then(|x| x.as_bool()).unwrap_or(false) {
                    r["snap"] = self.snapshot();
                }
                r
            }
            "migrate" => {
                // the contract's wasm admin migrates it (to the code registered under `code`, or to `code_id`)
                let code = req.get("code").and_then(|x| x.as_str()).unwrap_or("").to_string();
                let code_id = match self.codes.get(&code) {
                    Some(c) => *c,
                    None => req.get("code_id").and_then(|x| x.as_u64()).unwrap_or(0),
                };
                let msg = CosmosMsg::Wasm(WasmMsg::Migrate {
                    contract_addr: s(req, "contract"),
                    new_code_id: code_id,
                    msg: Binary(s(req, "msg").into_bytes()),
                });
                let sender = s(req, "sender");
                let mut r = self.run_msg(&sender, msg);
                if req.get("snap").and_then(|x| x.as_bool()).unwrap_or(false) {
                    r["snap"] = self.snapshot();
                }
                r
            }
            "bank" => {
                let msg = CosmosMsg::Bank(BankMsg::Send {
                    to_address: s(req, "to"),
                    amount: funds_of(req),
                });
                let sender = s(req, "from");
                let mut r = self.run_msg(&sender, msg);
                if req.get("snap").and_then(|x| x.as_bool()).unwrap_or(false) {
                    r["snap"] = self.snapshot();
                }
                r
            }
            "query" => self.query_raw(&s(req, "contract"), &s(req, "msg")),
            "track" => {
                self.track = Track {
                    accounts: strs(req, "accounts"),
                    denoms: strs(req, "denoms"),
                    tokens: strs(req, "tokens"),
                    contracts: strs(req, "contracts"),
                    allowances: req
                        .get("allowances")
                        .and_then(|x| x.as_array())
                        .map(|a| {
                            a.iter()
                                .map(|t| {
                                    (
                                        t[0].as_str().unwrap_or("").to_string(),
                                        t[1].as_str().unwrap_or("").to_string(),
                                        t[2].as_str().unwrap_or("").to_string(),
                                    )
                                })
                                .collect()
                        })
                        .unwrap_or_default(),
                };
                json!({"r":"ok","v":null})
            }
            "snap" => json!({"r":"ok","v":self.snapshot()}),
            "codes" => json!({"r":"ok","v":self.codes}),
            "dump" => {
                let recs = self.app.dump_wasm_raw(&Addr::unchecked(s(req, "contract")));
                let v: Vec<Value> = recs
                    .iter()
                    .map(|(k, v)| json!([hex(k), String::from_utf8_lossy(v)]))
                    .collect();
                json!({"r":"ok","v":v})
            }
            _ => json!({"r":"err","e":format!("unknown op {}", op)}),
        }
    }
}

pub fn hex(b: &[u8]) -> String {
    b.iter().map(|x| format!("{:02x}", x)).collect()
}

// ---------------------------------------------------------------------------

fn handle_one(world: &mut Option<World>, req: &Value) -> Value {
    let op = s(req, "op");
    match op.as_str() {
        "call" => {
            let f = s(req, "f");
            let a = req.get("a").cloned().unwrap_or(Value::Null);
            out_json(catch_unwind(AssertUnwindSafe(|| fns::call(&f, &a))))
        }
        "new" => {
            let w = World::new(req);
            let codes = json!(w.codes);
            *world = Some(w);
            json!({"r":"ok","v":codes})
        }
        "ping" => json!({"r":"ok","v":"pong"}),
        _ => match world.as_mut() {
            Some(w) => w.handle(req),
            None => json!({"r":"err","e":"no world"}),
        },
    }
}

fn main() {
    std::panic::set_hook(Box::new(|info| {
        let msg = if let Some(s) = info.payload().downcast_ref::<&str>() {
            s.to_string()
        } else if let Some(s) = info.payload().downcast_ref::<String>() {
            s.clone()
        } else {
            "<non-string panic>".to_string()
        };
        let loc = info
            .location()
            .map(|l| format!("{}:{}", l.file(), l.line()))
            .unwrap_or_default();
        LAST_PANIC.with(|c| *c.borrow_mut() = format!("{} @ {}", msg, loc));
    }));
    let stdin = io::stdin();
    let stdout = io::stdout();
    let mut out = io::BufWriter::new(stdout.lock());
    let mut world: Option<World> = None;
    for line in stdin.lock().lines() {
        let line = match line {
            Ok(l) => l,
            Err(_) => break,
        };
        if line.trim().is_empty() {
            continue;
        }
        let req: Value = match serde_json::from_str(&line) {
            Ok(v) => v,
            Err(e) => {
                writeln!(out, "{}", json!({"r":"err","e":format!("bad request: {}", e)})).ok();
                out.flush().ok();
                continue;
            }
        };
        let resp = match &req {
            Value::Array(reqs) => {
                Value::Array(reqs.iter().map(|r| handle_one(&mut world, r)).collect())
            }
            _ => handle_one(&mut world, &req),
        };
        writeln!(out, "{}", resp).ok();
        out.flush().ok();
    }
}

