//! `ltoken` — a small cw20-compatible token that is NOT cw20-base: same messages and queries (the cw20 standard),
//! its own storage layout (raw big-endian u128 under "lb/<addr>", "la/<owner>/<spender>", "lm/..."). Worlds use it for
//! one of the traded tokens so that nothing in the contracts can depend on cw20-base's internals (raw storage reads,
//! its error strings, its attributes). No property logic here.

use cosmwasm_std::{
    to_binary, Binary, Deps, DepsMut, Env, MessageInfo, Response, StdError, StdResult, Storage,
    Uint128,
};
use cw20::{
    AllowanceResponse, BalanceResponse, Cw20ExecuteMsg, Cw20QueryMsg, Cw20ReceiveMsg, Expiration,
    TokenInfoResponse,
};
use cw20_base::msg::InstantiateMsg;

fn get(s: &dyn Storage, k: &[u8]) -> u128 {
    match s.get(k) {
        Some(v) if v.len() == 16 => {
            let mut b = [0u8; 16];
            b.copy_from_slice(&v);
            u128::from_be_bytes(b)
        }
        _ => 0,
    }
}
fn put(s: &mut dyn Storage, k: &[u8], v: u128) {
    s.set(k, &v.to_be_bytes())
}
fn kb(a: &str) -> Vec<u8> {
    [b"lb/".as_ref(), a.as_bytes()].concat()
}
fn ka(o: &str, sp: &str) -> Vec<u8> {
    format!("la/{}/{}", o, sp).into_bytes()
}
fn err(m: &str) -> StdError {
    StdError::generic_err(m)
}

pub fn instantiate(
    deps: DepsMut,
    _env: Env,
    _info: MessageInfo,
    msg: InstantiateMsg,
) -> StdResult<Response> {
    let mut supply: u128 = 0;
    for b in msg.initial_balances.iter() {
        let a = deps.api.addr_validate(&b.address)?;
        let cur = get(deps.storage, &kb(a.as_str()));
        put(deps.storage, &kb(a.as_str()), cur + b.amount.u128());
        supply = supply
            .checked_add(b.amount.u128())
            .ok_or_else(|| err("supply overflow"))?;
    }
    put(deps.storage, b"lm/supply", supply);
    deps.storage.set(b"lm/name", msg.name.as_bytes());
    deps.storage.set(b"lm/symbol", msg.symbol.as_bytes());
    deps.storage.set(b"lm/dec", &[msg.decimals]);
    Ok(Response::default())
}

fn mv(s: &mut dyn Storage, from: &str, to: &str, amount: u128) -> StdResult<()> {
    // zero-amount transfers are refused, as cw20-base refuses them (the router relies on that: see DESIGN.md 9.3 item 11)
    if amount == 0 {
        return Err(err("Invalid zero amount"));
    }
    let f = get(s, &kb(from));
    if f < amount {
        return Err(err("insufficient balance"));
    }
    put(s, &kb(from), f - amount);
    let t = get(s, &kb(to));
    put(
        s,
        &kb(to),
        t.checked_add(amount).ok_or_else(|| err("balance overflow"))?,
    );
    Ok(())
}
fn spend_allowance(s: &mut dyn Storage, owner: &str, spender: &str, amount: u128) -> StdResult<()> {
    let a = get(s, &ka(owner, spender));
    if a < amount {
        return Err(err("insufficient allowance"));
    }
    put(s, &ka(owner, spender), a - amount);
    Ok(())
}
fn burn(s: &mut dyn Storage, from: &str, amount: u128) -> StdResult<()> {
    if amount == 0 {
        return Err(err("Invalid zero amount"));
    }
    let f = get(s, &kb(from));
    if f < amount {
        return Err(err("insufficient balance"));
    }
    put(s, &kb(from), f - amount);
    let sup = get(s, b"lm/supply");
    put(s, b"lm/supply", sup - amount);
    Ok(())
}

/// migrate: `{"decimals": n}` sets the reported precision (any contract can be migrated to this code: the token is then a
/// live cw20 with empty balances); `{"dead": true}` freezes the token (every execute and query fails) until `{"dead": false}`.
pub fn migrate(deps: DepsMut, _env: Env, msg: serde_json::Value) -> StdResult<Response> {
    if let Some(d) = msg.get("decimals").and_then(|x| x.as_u64()) {
        deps.storage.set(b"lm/dec", &[d as u8]);
    }
    match msg.get("dead").and_then(|x| x.as_bool()) {
        Some(true) => deps.storage.set(b"lm/dead", &[1]),
        Some(false) => deps.storage.remove(b"lm/dead"),
        None => {}
    }
    Ok(Response::default())
}

fn alive(s: &dyn Storage) -> StdResult<()> {
    if s.get(b"lm/dead").is_some() {
        return Err(err("token is frozen"));
    }
    Ok(())
}

pub fn execute(
    deps: DepsMut,
    _env: Env,
    info: MessageInfo,
    msg: Cw20ExecuteMsg,
) -> StdResult<Response> {
    alive(deps.storage)?;
    let me = info.sender.to_string();
    match msg {
        Cw20ExecuteMsg::Transfer { recipient, amount } => {
            let r = deps.api.addr_validate(&recipient)?;
            mv(deps.storage, &me, r.as_str(), amount.u128())?;
            Ok(Response::new().add_attribute("action", "transfer"))
        }
        Cw20ExecuteMsg::Send {
            contract,
            amount,
            msg,
        } => {
            let r = deps.api.addr_validate(&contract)?;
            mv(deps.storage, &me, r.as_str(), amount.u128())?;
            let m = Cw20ReceiveMsg {
                sender: me,
                amount,
                msg,
            }
            .into_cosmos_msg(contract)?;
            Ok(Response::new().add_attribute("action", "send").add_message(m))
        }
        Cw20ExecuteMsg::Burn { amount } => {
            burn(deps.storage, &me, amount.u128())?;
            Ok(Response::new().add_attribute("action", "burn"))
        }
        Cw20ExecuteMsg::IncreaseAllowance {
            spender, amount, ..
        } => {
            let sp = deps.api.addr_validate(&spender)?;
            let a = get(deps.storage, &ka(&me, sp.as_str()));
            put(
                deps.storage,
                &ka(&me, sp.as_str()),
                a.checked_add(amount.u128())
                    .ok_or_else(|| err("allowance overflow"))?,
            );
            Ok(Response::new().add_attribute("action", "increase_allowance"))
        }
        Cw20ExecuteMsg::DecreaseAllowance {
            spender, amount, ..
        } => {
            let sp = deps.api.addr_validate(&spender)?;
            let a = get(deps.storage, &ka(&me, sp.as_str()));
            put(
                deps.storage,
                &ka(&me, sp.as_str()),
                a.saturating_sub(amount.u128()),
            );
            Ok(Response::new().add_attribute("action", "decrease_allowance"))
        }
        Cw20ExecuteMsg::TransferFrom {
            owner,
            recipient,
            amount,
        } => {
            let o = deps.api.addr_validate(&owner)?;
            let r = deps.api.addr_validate(&recipient)?;
            spend_allowance(deps.storage, o.as_str(), &me, amount.u128())?;
            mv(deps.storage, o.as_str(), r.as_str(), amount.u128())?;
            Ok(Response::new().add_attribute("action", "transfer_from"))
        }
        Cw20ExecuteMsg::SendFrom {
            owner,
            contract,
            amount,
            msg,
        } => {
            let o = deps.api.addr_validate(&owner)?;
            let r = deps.api.addr_validate(&contract)?;
            spend_allowance(deps.storage, o.as_str(), &me, amount.u128())?;
            mv(deps.storage, o.as_str(), r.as_str(), amount.u128())?;
            let m = Cw20ReceiveMsg {
                sender: me,
                amount,
                msg,
            }
            .into_cosmos_msg(contract)?;
            Ok(Response::new()
                .add_attribute("action", "send_from")
                .add_message(m))
        }
        Cw20ExecuteMsg::BurnFrom { owner, amount } => {
            let o = deps.api.addr_validate(&owner)?;
            spend_allowance(deps.storage, o.as_str(), &me, amount.u128())?;
            burn(deps.storage, o.as_str(), amount.u128())?;
            Ok(Response::new().add_attribute("action", "burn_from"))
        }
        _ => Err(err("unsupported by this token")),
    }
}

pub fn query(deps: Deps, _env: Env, msg: Cw20QueryMsg) -> StdResult<Binary> {
    alive(deps.storage)?;
    match msg {
        Cw20QueryMsg::Balance { address } => {
            let a = deps.api.addr_validate(&address)?;
            to_binary(&BalanceResponse {
                balance: Uint128::new(get(deps.storage, &kb(a.as_str()))),
            })
        }
        Cw20QueryMsg::TokenInfo {} => to_binary(&TokenInfoResponse {
            name: String::from_utf8_lossy(&deps.storage.get(b"lm/name").unwrap_or_default())
                .to_string(),
            symbol: String::from_utf8_lossy(&deps.storage.get(b"lm/symbol").unwrap_or_default())
                .to_string(),
            decimals: deps
                .storage
                .get(b"lm/dec")
                .and_then(|v| v.first().copied())
                .unwrap_or(0),
            total_supply: Uint128::new(get(deps.storage, b"lm/supply")),
        }),
        Cw20QueryMsg::Allowance { owner, spender } => {
            let o = deps.api.addr_validate(&owner)?;
            let sp = deps.api.addr_validate(&spender)?;
            to_binary(&AllowanceResponse {
                allowance: Uint128::new(get(deps.storage, &ka(o.as_str(), sp.as_str()))),
                expires: Expiration::Never {},
            })
        }
        _ => Err(err("unsupported by this token")),
    }
}
