//! `proxy` — a contract an attacker could deploy: it forwards any message in its own name and answers every query by
//! relaying it to a configured target (so it can describe itself as whatever the target is). It implements the simulator's
//! `Contract` trait directly (raw message bytes, parsed with serde_json). No property logic here.

use anyhow::{anyhow, Result as AnyResult};
use cosmwasm_std::{
    Binary, CosmosMsg, Deps, DepsMut, Empty, Env, MessageInfo, QueryRequest, Reply, Response,
    WasmMsg, WasmQuery,
};
use cw_multi_test::Contract;
use serde_json::Value;

pub struct Proxy;

impl Contract<Empty> for Proxy {
    fn instantiate(&self, deps: DepsMut, _env: Env, _info: MessageInfo, msg: Vec<u8>) -> AnyResult<Response> {
        let v: Value = serde_json::from_slice(&msg)?;
        let t = v.get("target").and_then(|x| x.as_str()).unwrap_or("");
        deps.storage.set(b"target", t.as_bytes());
        Ok(Response::default())
    }

    fn execute(&self, _deps: DepsMut, _env: Env, info: MessageInfo, msg: Vec<u8>) -> AnyResult<Response> {
        let v: Value = serde_json::from_slice(&msg)?;
        let f = v.get("forward").ok_or_else(|| anyhow!("proxy: expected {{forward:{{contract,msg}}}}"))?;
        let contract = f.get("contract").and_then(|x| x.as_str()).unwrap_or("").to_string();
        let inner = f.get("msg").cloned().unwrap_or(Value::Null);
        let m = CosmosMsg::Wasm(WasmMsg::Execute {
            contract_addr: contract,
            msg: Binary(serde_json::to_vec(&inner)?),
            funds: info.funds,
        });
        Ok(Response::new().add_message(m))
    }

    fn query(&self, deps: Deps, _env: Env, msg: Vec<u8>) -> AnyResult<Binary> {
        let target = String::from_utf8_lossy(&deps.storage.get(b"target").unwrap_or_default()).to_string();
        let raw = deps
            .querier
            .raw_query(&cosmwasm_std::to_vec(&QueryRequest::<Empty>::Wasm(WasmQuery::Smart {
                contract_addr: target,
                msg: Binary(msg),
            }))?);
        match raw {
            cosmwasm_std::SystemResult::Ok(cosmwasm_std::ContractResult::Ok(b)) => Ok(b),
            cosmwasm_std::SystemResult::Ok(cosmwasm_std::ContractResult::Err(e)) => Err(anyhow!(e)),
            cosmwasm_std::SystemResult::Err(e) => Err(anyhow!(e.to_string())),
        }
    }

    fn sudo(&self, _deps: DepsMut, _env: Env, _msg: Vec<u8>) -> AnyResult<Response> {
        Err(anyhow!("proxy: no sudo"))
    }
    fn reply(&self, _deps: DepsMut, _env: Env, _msg: Reply) -> AnyResult<Response> {
        Err(anyhow!("proxy: no reply"))
    }
    fn migrate(&self, _deps: DepsMut, _env: Env, _msg: Vec<u8>) -> AnyResult<Response> {
        Err(anyhow!("proxy: no migrate"))
    }
}
